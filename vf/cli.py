"""Run a batchie command-line entry point in-process."""
import importlib
import logging
import sys


class CliExit(Exception):
    pass


def run_cli(name, argv, verbose=False):
    """run a batchie command line entry point in-process; verbose=True adds the --verbose flag every entry point has (what the
    program logs is of no interest and is swallowed, what it computes must not depend on it)"""
    mod = importlib.import_module("batchie.cli." + name)
    old = sys.argv
    argv = list(argv) + (["--verbose"] if verbose else [])
    sys.argv = [name] + [str(a) for a in argv]
    level_before = logging.root.manager.disable
    if verbose:
        logging.disable(logging.NOTSET)  # (the harness silences logging globally; a verbose run really logs, into a sink)
    try:
        if any(str(a) in ("--progress", "-P", "--verbose", "-v") for a in argv):
            import contextlib
            import io

            with contextlib.redirect_stderr(io.StringIO()):  # the progress bar itself is of no interest
                mod.main()
        else:
            mod.main()
    except SystemExit as e:
        if e.code not in (0, None):
            raise CliExit("%s exited with %r (argv %r)" % (name, e.code, argv))
    finally:
        sys.argv = old
        logging.disable(level_before)
        logging.getLogger("batchie").handlers[:] = []


_warm = [False]


def warm():
    """Import every batchie module once (the CLIs do this lazily through introspection.get_class, and third-party
    imports may touch the global numpy random state): call before comparing runs that depend on that state."""
    if _warm[0]:
        return
    import numpy.random as npr

    from batchie import introspection
    from batchie.core import Scorer

    st = npr.get_state()
    try:
        introspection.get_class(package_name="batchie", class_name="__no_such_class__", base_class=Scorer)
    except Exception:
        pass
    npr.set_state(st)
    _warm[0] = True
