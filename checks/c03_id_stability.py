"""C03 - identifiers stay stable through the whole simulation lifecycle (history property)."""
import numpy as np
from hypothesis import strategies as st

from vf import strategies as S
from vf import tmp
from vf.cli import run_cli
from vf.engine import Violation, require

ID = "C03"
LEVEL = "exploration"
TECHNIQUE = "model-based generation of lifecycle histories (hold-out split, reveal/mask/unmask/save/load/CLI) with the parent screen's name->id functions as reference and a prediction differential"
RULE = (
    "parent: arity-2 screen, 4..24 rows, >=2 unobserved plates, few rows per sample/condition so that some sample or (treatment,dose) lives only in "
    "held-out rows (in 3 of 5 cases the names are prefixes / case variants of each other: s1, s10, s100 ...); split by create_plate_balanced_holdout_set_among_masked_plates (or create_random_holdout, or the prepare_retrospective_simulation CLI) with drawn fraction/seed; history of 1..8 operations on the training "
    "and test screens from {reveal(any unobserved ids, any order), mask, unmask, save+load, reveal_plate CLI}; half of the saves go to a path that already holds the archive of another prepared simulation (same names, same table shapes, ids reversed). After each step: name->id functions and both "
    "mappings equal the parent's, predictions of a posterior sample sized by the parent's space equal those computed with the parent's ids. Non-trivial = "
    "history has >=1 reveal/mask/unmask on a stage whose rows do not cover the parent's mapping. distinct = distinct case JSON."
    ' Also: fixed boundary-size simulations (2**8, 2**15, 2**16 (+60) sample names or conditions, the last names in held-out experiments only).'
    ' Also: sparse designs with names x doses above 2**32 (100k x 100k names and doses, 300k experiments; thorough larger) and with exactly 2**16 doses; one history in forty has 25..45 operations.'
    " Fixed cases pass the stages' archives through other interpreter processes (saveload_xproc)."
    " Operation cli_train: the train_model command on a stage against a direct training on its observed part with the stage's ids."
)
ASSUMPTIONS = [
    "the prepared simulation is the pair returned by the hold-out split of the parent; stored values are in (0,1] so reveals are accepted",
    "prediction equality is exact (same ids => same arithmetic)",
]


def budgets(tier):
    if tier == "quick":
        return {"examples": 260, "max_s": 120, "shrink_s": 20, "shards": 1}
    return {"examples": 1500, "max_s": 700, "shrink_s": 90, "shards": 16}


OPS = ["reveal", "reveal", "reveal", "mask", "unmask", "saveload", "cli_reveal", "cli_train"]


@st.composite
def _case(draw):
    sc = draw(
        S.simple_screen(
            n_samples=(2, 6),
            n_treat=(2, 8),
            n_rows=(4, 24),
            n_plates=(2, 5),
            obs=st.floats(min_value=0.05, max_value=1.0),
            ensure_unobserved=2,
        )
    )
    ops = []
    for _ in range(draw(st.one_of(*([st.integers(1, 8)] * 39 + [st.integers(25, 45)])))):  # one history in forty is long
        ops.append({"op": draw(st.sampled_from(OPS)), "stage": draw(st.sampled_from(["train", "train", "test"])), "picks": draw(st.lists(st.integers(0, 20), min_size=1, max_size=3))})
    theta = draw(S.theta_params("additive", sc["ns"], sc["nt"], D=2))
    return {
        "screen": sc,
        "fraction": draw(st.sampled_from([0.1, 0.5, 0.5, 0.9, 1.0])),
        "seed": draw(st.integers(0, 2**32 - 1)),
        "ops": ops,
        "theta": theta,
        # 1 in 5: the prepared simulation comes from the prepare_retrospective_simulation CLI (its internal parent is not
        # observable, so the reference is the pair (training, test) it wrote: both must share one encoding)
        "via_cli": draw(st.integers(0, 4)) == 0,
        # names that are prefixes / longer variants of each other (s1, s10, s100 ...), so that name widths differ between the rows of a
        # stage and the parent's tables
        "names": draw(st.sampled_from([None, None, "prefix", "prefix", "case"])),
        # the control treatment's name: the generator's default sorts before every treatment name; others sort after or between them
        "control_name": draw(st.sampled_from([None, None, "zz_vehicle", "t05", "DMSO", "t"])),
        "random_split": draw(st.integers(0, 3)) == 0,
    }


def strategy(tier):
    return _case()


def exhaustive(tier):
    # the stages of one simulation run as separate interpreter processes (other string-hash salts), as the pipeline's commands do:
    # archives written by one process are read and re-written by another; the training rows do not cover the id tables
    for v in range(2 if tier == "quick" else 5):
        rows = []
        for i in range(10 + 2 * v):
            rows.append({"s": ["a", "b", "c"][i % 3], "p": "obs%d" % (i % 2), "t": ["t%d" % (i % 3), "t%d" % ((i + 1 + i // 3 % 2) % 3)], "d": [1.0, 2.0], "o": 0.3 + 0.04 * i})
        for i in range(6 + v):
            rows.append({"s": ["a", "d", "c", "e"][i % (3 + v % 2)], "p": "u%d" % (i % 3), "t": ["t%d" % (i % 5), "t%d" % ((i + 2) % 6)], "d": [1.0, [2.0, 4.0][i % 2]], "o": 0.5})
        sc = {"arity": 2, "control": "ctl", "rows": rows, "observed": ["obs0", "obs1"], "ns": 5, "nt": 12, "layout": None}
        ops = [{"op": "saveload_xproc", "stage": "train", "picks": [v]}, {"op": "reveal", "stage": "train", "picks": [0]}, {"op": "cli_train", "stage": "train", "picks": [v]}, {"op": "saveload_xproc", "stage": "train", "picks": [v + 1]}, {"op": "saveload_xproc", "stage": "test", "picks": [v + 2]}, {"op": "mask", "stage": "train", "picks": [1]}]
        yield {"screen": sc, "fraction": [1.0, 0.5][v % 2], "seed": 100 + v, "ops": ops, "theta": {"kind": "additive", "alpha": 0.1, "precision": 2.0}}
    # simulations whose name tables cross 2**8, 2**15, 2**16 entries while the last names (the highest ids) occur in held-out
    # experiments only: the training screen's rows then stay below the boundary, its mappings do not
    sizes = [(a, n) for n in (2**8, 2**15, 2**16) for a in ("samples", "treatments")] if tier != "quick" else [("samples", 2**8), ("treatments", 2**8), ("samples", 2**16), ("treatments", 2**15)]
    for axis, n in sizes:
        ops = [{"op": "saveload", "stage": "train", "picks": [1]}, {"op": "reveal", "stage": "train", "picks": [1]}, {"op": "saveload", "stage": "test", "picks": [1]}, {"op": "mask", "stage": "train", "picks": [1]}, {"op": "saveload", "stage": "train", "picks": [3]}]
        yield {"big": {"axis": axis, "n": n + 60, "tail": 100}, "fraction": 1.0, "seed": n, "ops": ops, "theta": {"kind": "additive", "alpha": 0.1, "precision": 2.0}}
    for n, names, doses in [(300000, 100000, 100000)] + ([(600000, 150000, 150000), (900000, 70000, 300000)] if tier != "quick" else []):
        ops = [{"op": "saveload", "stage": "train", "picks": [1]}, {"op": "reveal", "stage": "train", "picks": [1]}, {"op": "saveload", "stage": "test", "picks": [1]}]
        yield {"big": {"axis": "random_sparse", "n": n, "tail": 100, "names": names, "doses": doses}, "fraction": 0.5, "seed": n, "ops": ops, "theta": {"kind": "additive", "alpha": 0.1, "precision": 2.0}}
    # sparse designs whose name and dose counts multiply to 2**32 and beyond (2**16 doses, more than 2**16 names)
    for n, doses, frac in [(2**16 + 60, 2**16, 0.5)] + ([(2**16 + 60, 2**16, 1.0), (2**17 + 9, 2**15, 0.5), (2**16 + 60, 2**16 - 1, 0.5), (70001, 70001, 0.5)] if tier != "quick" else []):
        ops = [{"op": "saveload", "stage": "train", "picks": [1]}, {"op": "reveal", "stage": "train", "picks": [1]}, {"op": "saveload", "stage": "test", "picks": [1]}, {"op": "unmask", "stage": "train", "picks": [2]}]
        yield {"big": {"axis": "sparse", "n": n, "tail": 100, "doses": doses}, "fraction": frac, "seed": n + doses, "ops": ops, "theta": {"kind": "additive", "alpha": 0.1, "precision": 2.0}}


def _big_parent(g):
    """n distinct sample names (or n distinct (treatment, dose) conditions), one experiment each; the last `tail` of them (the highest
    ids) sit on unobserved plates only, a third of the others on the observed plate"""
    from batchie.data import Screen

    n, tail = g["n"], g["tail"]
    i = np.arange(n)
    plates = np.where((i % 3 == 0) & (i < n - tail), "observed", np.char.add("u", (i % 4).astype(str)))
    if g["axis"] == "samples":
        samples = np.array(["s%06d" % k for k in i])
        tn = np.stack([np.array(["t%d" % (k % 5) for k in i]), np.array(["t%d" % ((k + 1 + k // 5 % 4) % 5) for k in i])], axis=1)
        td = np.stack([np.full(n, 1.0), np.where(i % 7 == 0, 0.0, 2.0)], axis=1)
    elif g["axis"] == "random_sparse":
        # `n` experiments, each with one of `names` names at one of `doses` doses (pairs drawn from a fixed-seed generator): a
        # compound library at measured concentrations - names x doses is several times 2**32, the pairs present are a few 10**5
        r_ = np.random.default_rng(g["names"] + g["doses"])
        samples = np.array(["s%d" % (k % 4) for k in i])
        tn = np.stack([np.char.add("c", r_.integers(0, g["names"], size=n).astype(str)), np.full(n, "ctl")], axis=1)
        td = np.stack([0.001 * (1 + r_.integers(0, g["doses"], size=n)), np.zeros(n)], axis=1)
    elif g["axis"] == "sparse":
        # every name at one dose of its own kind: n names, `doses` distinct doses (name k at dose k mod doses) - names x doses is
        # far beyond what the rows contain
        samples = np.array(["s%d" % (k % 4) for k in i])
        tn = np.stack([np.array(["t%06d" % k for k in i]), np.full(n, "ctl")], axis=1)
        td = np.stack([0.25 * (1 + (i % g["doses"])), np.zeros(n)], axis=1)
    else:
        samples = np.array(["s%d" % (k % 4) for k in i])
        tn = np.stack([np.array(["t%06d" % (k // 2) for k in i]), np.full(n, "ctl")], axis=1)
        td = np.stack([1.0 + (i % 2), np.zeros(n)], axis=1)
    return Screen(treatment_names=tn, treatment_doses=td, observations=0.2 + 0.6 * ((i * 7919) % 1000) / 1000.0, observation_mask=plates == "observed", sample_names=samples, plate_names=plates, control_treatment_name="ctl")


def _functions(s):
    if s.size > 50000:
        import pandas as pd

        f_s = {str(k): int(v) for k, v in pd.DataFrame({"n": np.asarray(s.sample_names), "i": np.asarray(s.sample_ids)}).drop_duplicates().itertuples(index=False)}
        tn, td, ti = np.asarray(s.treatment_names), np.asarray(s.treatment_doses), np.asarray(s.treatment_ids)
        u = pd.DataFrame({"n": tn.ravel(), "d": td.ravel(), "i": ti.ravel()}).drop_duplicates()
        f_t = {}
        for nm, ds, ii in u.itertuples(index=False):
            k = (str(nm), float(ds))
            if f_t.setdefault(k, int(ii)) != int(ii):
                f_t[k] = None  # one (name, dose) with two ids inside one screen: reported by the caller as a mismatch
        return f_s, f_t
    f_s, f_t = {}, {}
    for name, i in zip(s.sample_names, s.sample_ids):
        f_s[str(name)] = int(i)
    tn, td, ti = np.asarray(s.treatment_names), np.asarray(s.treatment_doses), np.asarray(s.treatment_ids)
    for r in range(tn.shape[0]):
        for c in range(tn.shape[1]):
            f_t[(str(tn[r, c]), float(td[r, c]))] = int(ti[r, c])
    return f_s, f_t


def _occupy(path, s, control):
    """the path already holds the archive of ANOTHER prepared simulation: same rows and names, same table shapes, but the ids
    of its sample and treatment tables run the other way round (a re-run into an output directory used before)"""
    from batchie.data import Screen

    tn, td, ti = [np.asarray(x) for x in s.treatment_mapping]
    sn, si = [np.asarray(x) for x in s.sample_mapping]
    ti2 = ti.copy()
    nz = ti != -1
    if nz.any():
        ti2[nz] = ti[nz].max() - ti[nz]
    other = Screen(
        treatment_names=np.asarray(s.treatment_names),
        treatment_doses=np.asarray(s.treatment_doses),
        sample_names=np.asarray(s.sample_names),
        plate_names=np.asarray(s.plate_names),
        observations=np.asarray(s.observations).copy(),
        observation_mask=np.asarray(s.observation_mask).copy(),
        control_treatment_name=control,
        treatment_mapping=(tn, td, ti2),
        sample_mapping=(sn, (si.max() - si) if len(si) else si),
    )
    other.save_h5(path)


def check_case(case):
    from batchie.data import ExperimentSpace, Screen
    from batchie.retrospective import create_plate_balanced_holdout_set_among_masked_plates, mask_screen, reveal_plates, unmask_screen

    sc = case["screen"] if "big" not in case else {"control": "ctl"}
    if case.get("names"):
        pools = {"prefix": ["1", "11", "10", "2", "100", "3", "1000", "20"], "case": ["a", "A", "aa", "Aa", "b", "B", "ab", "aB"]}[case["names"]]
        off = case["seed"] % len(pools)
        ren = lambda x: x if x == sc["control"] else x[0] + pools[(int(x[1:]) + off) % len(pools)] + ("" if int(x[1:]) < len(pools) else x[1:])
        # with the prefix names every other case moves dose 1 to 12: then name + dose read together collide ("t1" at 12.0, "t11" at 2.0)
        dmap = (lambda d_: 12.0 if (case["names"] == "prefix" and case["seed"] % 2 and d_ == 1.0) else d_)
        sc = dict(sc, rows=[dict(r, s=ren(r["s"]), t=[ren(t) for t in r["t"]], d=[dmap(d_) for d_ in r["d"]]) for r in sc["rows"]])
    if case.get("control_name"):
        old_ctl, new_ctl = sc["control"], case["control_name"]
        sc = dict(sc, control=new_ctl, rows=[dict(r, t=[new_ctl if t == old_ctl else t for t in r["t"]]) for r in sc["rows"]])
    parent = S.build_screen(sc) if "big" not in case else _big_parent(case["big"])
    pf_s, pf_t = _functions(parent)
    p_tm, p_sm = parent.treatment_mapping, parent.sample_mapping
    space = ExperimentSpace.from_screen(parent)
    n_t, n_s = space.n_unique_treatments, space.n_unique_samples
    # posterior sample sized by the PARENT's space
    th = dict(case["theta"])
    rng = np.random.default_rng(case["seed"] % 1000)
    th["W"] = rng.normal(size=(n_s, 2)).tolist()
    th["W0"] = rng.normal(size=n_s).tolist()
    th["V2"] = rng.normal(size=(n_t, 2)).tolist()
    th["V1"] = rng.normal(size=(n_t, 2)).tolist()
    th["V0"] = rng.normal(size=n_t).tolist()
    theta = S.build_theta(th)

    paths = []
    if case.get("via_cli"):
        from batchie.retrospective import unmask_screen

        src, a, b = tmp.fresh("src.h5"), tmp.fresh("train.h5"), tmp.fresh("test.h5")
        paths += [src, a, b]
        unmask_screen(parent).save_h5(src)
        try:
            run_cli("prepare_retrospective_simulation", ["--data", src, "--training-output", a, "--test-output", b, "--plate-generator", "PlatePermutationPlateGenerator", "--holdout-fraction", case["fraction"], "--seed", case["seed"] % (2**31)], verbose=case["seed"] % 2 == 1)
            train, test = Screen.load_h5(a), Screen.load_h5(b)
        except (ValueError, TypeError):
            tmp.cleanup(*paths)
            from vf.engine import Skip

            raise Skip()  # degenerate preparation (no unobserved plate left / empty half): outside the quantifier
        tmp.cleanup(*paths)
        # the CLI's internal parent is not observable: the two halves must agree with each other and carry one mapping
        require(S.mapping_equal(train.treatment_mapping, test.treatment_mapping) and S.mapping_equal(train.sample_mapping, test.sample_mapping), "cli_prepare.halves_share_mappings", "training and test screen written by prepare_retrospective_simulation carry different mappings")
        p_tm, p_sm = train.treatment_mapping, train.sample_mapping
        pf_s, pf_t = {}, {}
        for half in (train, test):
            fs, ft = _functions(half)
            for k, v in list(fs.items()) + list(ft.items()):
                d = pf_s if isinstance(k, str) else pf_t
                require(d.setdefault(k, v) == v, "cli_prepare.halves_share_ids", lambda: "%r has id %r in one half and %r in the other" % (k, d[k], v))
        space = ExperimentSpace.from_screen(train)
        n_t, n_s = space.n_unique_treatments, space.n_unique_samples
        rng2 = np.random.default_rng(case["seed"] % 1000)
        th = dict(case["theta"], W=rng2.normal(size=(n_s, 2)).tolist(), W0=rng2.normal(size=n_s).tolist(), V2=rng2.normal(size=(n_t, 2)).tolist(), V1=rng2.normal(size=(n_t, 2)).tolist(), V0=rng2.normal(size=n_t).tolist())
        theta = S.build_theta(th)
    elif case.get("random_split"):
        from batchie.retrospective import create_random_holdout

        train, test = create_random_holdout(parent, case["fraction"], np.random.default_rng(case["seed"]))
    else:
        train, test = create_plate_balanced_holdout_set_among_masked_plates(parent, case["fraction"], np.random.default_rng(case["seed"]))
    stages = {"train": train, "test": test}
    uncovered = {"train": False, "test": False}

    def check_stage(name, s, tag):
        if s.size == 0:
            return
        f_s, f_t = _functions(s)
        for k, v in f_s.items():
            require(pf_s.get(k) == v, tag + ".sample_id_stable", lambda: "%s screen: sample %r has id %d, the prepared simulation assigned %r" % (name, k, v, pf_s.get(k)))
        for k, v in f_t.items():
            require(pf_t.get(k) == v, tag + ".treatment_id_stable", lambda: "%s screen: treatment %r has id %d, the prepared simulation assigned %r" % (name, k, v, pf_t.get(k)))
        require(S.mapping_equal(s.treatment_mapping, p_tm), tag + ".treatment_mapping_kept", lambda: "%s screen: treatment mapping has %d entries, parent %d" % (name, len(s.treatment_mapping[0]), len(p_tm[0])))
        require(S.mapping_equal(s.sample_mapping, p_sm), tag + ".sample_mapping_kept", lambda: "%s screen: sample mapping has %d entries, parent %d" % (name, len(s.sample_mapping[0]), len(p_sm[0])))
        es = ExperimentSpace.from_screen(s)
        require(es.n_unique_treatments >= n_t and es.n_unique_samples >= n_s, tag + ".space_never_shrinks", lambda: "%s screen implies sizes (%d,%d), parent (%d,%d)" % (name, es.n_unique_samples, es.n_unique_treatments, n_s, n_t))
        oracle = Screen(
            treatment_names=np.asarray(s.treatment_names),
            treatment_doses=np.asarray(s.treatment_doses),
            sample_names=np.asarray(s.sample_names),
            plate_names=np.asarray(s.plate_names),
            observations=np.asarray(s.observations).copy(),
            observation_mask=np.asarray(s.observation_mask).copy(),
            control_treatment_name=sc["control"],
            treatment_mapping=p_tm,
            sample_mapping=p_sm,
        )
        if n_t > 0 and n_s > 0:
            # (a space without any non-control treatment admits no posterior sample to predict with: control rows index an
            # empty parameter array - the prediction differential is a device of this check and is skipped there)
            a = np.asarray(theta.predict_conditional_mean(s), dtype=float)
            b = np.asarray(theta.predict_conditional_mean(oracle), dtype=float)
            require(S.same_bits(a, b), tag + ".predictions_stable", lambda: "%s screen: predictions %r differ from those with the prepared ids %r" % (name, a.tolist(), b.tolist()))
        own = Screen(
            treatment_names=np.asarray(s.treatment_names),
            treatment_doses=np.asarray(s.treatment_doses),
            sample_names=np.asarray(s.sample_names),
            plate_names=np.asarray(s.plate_names),
            control_treatment_name=sc["control"],
        )
        if len(own.treatment_mapping[0]) < len(p_tm[0]) or len(own.sample_mapping[0]) < len(p_sm[0]):
            uncovered[name] = True

    for name, s in stages.items():
        check_stage(name, s, "split")
    nontrivial = False
    paths = []
    try:
        for op in case["ops"]:
            name = op["stage"]
            s = stages[name]
            if s.size == 0:
                continue
            kind = op["op"]
            if kind in ("reveal", "cli_reveal"):
                unobs = sorted(int(p.plate_id) for p in s.plates if not bool(np.all(p.observation_mask)))
                every = sorted(int(p.plate_id) for p in s.plates)
                # mostly plates still to reveal; now and then only plates that are already observed (a repeated / resumed reveal step)
                pool = every if (not unobs or op["picks"][0] % 3 == 0) else unobs
                if op["picks"][0] % 5 == 0:
                    pool = [p_ for p_ in every if p_ not in unobs] or pool
                ids = [pool[i % len(pool)] for i in op["picks"]]
                if kind == "reveal":
                    s = reveal_plates(s, ids)
                else:
                    a, b = tmp.fresh("in.h5"), tmp.fresh("out.h5")
                    paths += [a, b]
                    if op["picks"][-1] % 2 == 0:
                        _occupy(a, s, sc["control"])
                        _occupy(b, s, sc["control"])
                    s.save_h5(a)
                    run_cli("reveal_plate", ["--screen", a, "--output", b, "--plate-id"] + ids, verbose=op["picks"][0] % 2 == 1)
                    s = Screen.load_h5(b)
            elif kind == "saveload_xproc":
                from vf import xproc

                a, b = tmp.fresh("stage.h5"), tmp.fresh("stage_next.h5")
                paths += [a, b]
                s.save_h5(a)
                ok_, text_ = xproc.python("from batchie.data import Screen\nScreen.load_h5(params['src']).save_h5(params['dst'])\n", 700 + 13 * op["picks"][0], src=a, dst=b)
                require(ok_, "saveload_xproc.failed", lambda: "loading and saving the stage's archive in another process failed: %s" % text_[-500:])
                s = Screen.load_h5(b)
            elif kind == "cli_train":
                # a posterior sample learned on this stage by the train_model command is the one a direct training on the stage's
                # observed part (with the stage's own ids) gives: same seed, same parameters
                if not bool(np.any(np.asarray(s.observation_mask))):
                    continue
                from batchie import sampling
                from batchie.core import ThetaHolder
                from batchie.models.sparse_combo import SparseDrugCombo
                from vf.cli import warm

                warm()
                a, o = tmp.fresh("stage_for_training.h5"), tmp.fresh("thetas.h5")
                paths += [a, o]
                s.save_h5(a)
                seed_ = 1 + op["picks"][0]
                st_ = np.random.get_state()
                try:
                    with np.errstate(all="ignore"):
                        run_cli("train_model", ["--data", a, "--model", "SparseDrugCombo", "--model-param", "n_embedding_dimensions=1", "--n-samples", 2, "--n-burnin", 1, "--thin", 1, "--n-chains", 1, "--chain-index", 0, "--seed", seed_, "--output", o])
                        got_ = ThetaHolder.load_h5(o)
                        m_ = SparseDrugCombo(experiment_space=ExperimentSpace.from_screen(s), n_embedding_dimensions=1)
                        m_.add_observations(s.subset_observed())
                        ref_ = sampling.sample(model=m_, results=ThetaHolder(n_thetas=2), seed=seed_, n_chains=1, chain_index=0, n_burnin=1, thin=1)
                finally:
                    np.random.set_state(st_)
                for j_, (x_, y_) in enumerate(zip(got_.thetas, ref_.thetas)):
                    dx, dy = dict(x_.private_parameters_dict()), dict(y_.private_parameters_dict())
                    for k_ in sorted(dy):
                        require(np.asarray(dx[k_]).shape == np.asarray(dy[k_]).shape and np.allclose(np.asarray(dx[k_], dtype=float), np.asarray(dy[k_], dtype=float), rtol=1e-6, atol=1e-7, equal_nan=True), "cli_train.learned_on_stage_ids", lambda: "%s stage: sample %d learned by train_model differs in %s from a direct training on the stage's observed experiments with the stage's ids (seed %d): %r vs %r" % (name, j_, k_, seed_, np.asarray(dx[k_]).tolist()[:4], np.asarray(dy[k_]).tolist()[:4]))
                continue
            elif kind == "mask":
                s = mask_screen(s)
            elif kind == "unmask":
                s = unmask_screen(s)
            else:
                a = tmp.fresh("s.h5")
                paths.append(a)
                if op["picks"][-1] % 2 == 0:
                    _occupy(a, s, sc["control"])
                s.save_h5(a)
                s = Screen.load_h5(a)
            stages[name] = s
            check_stage(name, s, kind)
            if kind != "saveload" and uncovered[name]:
                nontrivial = True
    finally:
        tmp.cleanup(*paths)
    if "big" in case:
        nontrivial = True
    labels = (["big:%s>=2^%d" % (case["big"]["axis"], (case["big"]["n"] - 9).bit_length() - 1)] if "big" in case else []) + ["fraction=%s" % case["fraction"], "prepared-by-cli" if case.get("via_cli") else "random-holdout" if case.get("random_split") else "plate-balanced-holdout"]
    if uncovered["train"]:
        labels.append("train-rows-do-not-cover-mapping")
    if uncovered["test"]:
        labels.append("test-rows-do-not-cover-mapping")
    return {"nontrivial": nontrivial, "labels": labels, "counts": {"ops": len(case["ops"])}}
