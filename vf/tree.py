"""Import batchie from the *working tree* (BATCHIE_REPO, default /repo), never from an installed copy."""
import importlib.util
import os
import sys

REPO = os.path.abspath(os.environ.get("BATCHIE_REPO", "/repo"))
SRC = os.path.join(REPO, "src")
ORCH = os.path.join(REPO, "nextflow", "scripts", "batchie.py")


class HarnessError(Exception):
    """The harness could not do its job (exit 2). Never reported as a violation."""


def activate():
    os.environ.setdefault("OMP_NUM_THREADS", "1")
    os.environ.setdefault("OPENBLAS_NUM_THREADS", "1")
    os.environ.setdefault("MKL_NUM_THREADS", "1")
    # guard for (currently nonexistent) verification hooks in the repository
    os.environ.setdefault("BATCHIE_VERIF", "1")
    deps = os.path.join(os.path.dirname(os.path.dirname(os.path.abspath(__file__))), ".deps")
    if os.path.isdir(deps) and deps not in sys.path:
        sys.path.append(deps)
    while SRC in sys.path:
        sys.path.remove(SRC)
    sys.path.insert(0, SRC)
    for name in list(sys.modules):
        if name == "batchie" or name.startswith("batchie."):
            del sys.modules[name]
    try:
        import batchie  # noqa
    except Exception as e:  # pragma: no cover
        raise HarnessError("cannot import batchie from %s: %r" % (SRC, e))
    f = os.path.realpath(batchie.__file__)
    if not f.startswith(os.path.realpath(SRC) + os.sep):
        raise HarnessError("batchie imported from %s, not from %s" % (f, SRC))
    import logging

    if os.environ.get("VERIF_LOGGING") == "debug":
        # (process-configuration sweep) the package logs at DEBUG level into a sink instead of being silenced
        lg = logging.getLogger("batchie")
        lg.setLevel(logging.DEBUG)
        lg.addHandler(logging.NullHandler())
        lg.propagate = False
    else:
        logging.disable(logging.CRITICAL)
    import warnings

    warnings.filterwarnings("ignore")
    return batchie


_orch_counter = [0]


_orch_code = []


def load_orchestrator():
    """Execute nextflow/scripts/batchie.py (compiled once per process, no bytecode written) into a fresh module object."""
    import logging
    import types

    if not os.path.exists(ORCH):
        raise HarnessError("orchestration script missing: %s" % ORCH)
    try:
        if not _orch_code:
            with open(ORCH, "rb") as f:
                _orch_code.append(compile(f.read(), ORCH, "exec"))
        _orch_counter[0] += 1
        mod = types.ModuleType("_batchie_orchestrator_")
        mod.__file__ = ORCH
        exec(_orch_code[0], mod.__dict__)
    except Exception as e:
        raise HarnessError("cannot load orchestration script: %r" % (e,))
    lg = getattr(mod, "logger", None)
    if isinstance(lg, logging.Logger):
        lg.handlers[:] = []
        lg.addHandler(logging.NullHandler())
        lg.propagate = False
    return mod


def attach(obj, name):
    """getattr that turns a vanished internal name into a harness error (exit 2), not a violation."""
    try:
        return getattr(obj, name)
    except AttributeError:
        raise HarnessError("internal name %r not found on %r (refactored?)" % (name, obj))
