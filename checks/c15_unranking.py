"""C15 - combination unranking is a bijection; sampled triples are distinct and complete."""
import itertools
import math

from hypothesis import strategies as st

from vf import randomctl
from vf.engine import Skip, Violation, require
from vf.tree import attach

ID = "C15"
LEVEL = "exploration"
TECHNIQUE = "exhaustive enumeration for small n + Hypothesis-sampled rank/successor relations + end-to-end spy on the DBAL kernel"
RULE = (
    "exhaustive: every (n,k) with n<=N_EX, k<=4, whole index range compared with sorted(descending itertools.combinations); "
    "sampled: n in 41..6000 (one case in sixteen up to 2**19, thorough 2**21), k in 1..4, runs of 40 consecutive block starts at n = 20000..300000 (thorough 2**21), index biased to first/last/C(m,k) boundaries, checked by rank(unrank(i))==i, "
    "strict descent, range and colex-successor; kernel: recorded triples of dbal_fast_gauss_scoring_vectorized for "
    "n in 3..40 and budgets around C(n,3); behavioural kernel cases (distance weight 1, 2, 8 or 0.5; with a non-default weight the samples form two far-apart groups of near-identical predictions, distances spanning 10^-9..1): for n<=6 the score must equal the estimator over SOME set of min(budget,C(n,3)) distinct triples "
    "(subset search), and for n in 30..400 a scripted generator hands the kernel indices at the C(a,3) block boundaries and the score must equal the estimator over the "
    "triples those indices denote (own unranking); many-triple cases: n in 20..40 with a budget covering all C(n,3) in 1140..9880 triples (incl. the default 5000) must give the estimator over every triple once, and 1025..4100 scripted indices (non-round counts) the estimator over exactly those. Non-trivial = k>=2 and the index range has an interior (C(n,k)>=3) "
    "[exhaustive (n,k) pairs], or k>=2 and index neither first nor last [sampled], or a kernel case with n>=4. "
    "distinct = distinct (kind,n,k,index/budget)."
    ' Also: a call interrupted (KeyboardInterrupt) at every one of its lines in turn, each time on a private copy of the module, followed by a re-check of the enumeration; kernel generators in half the cases repeat or extremise words of their stream.'
    ' Sampled indices are handed over as int, int64, uint64, int32 or intp; block runs around the largest representable index for n with C(n,k) near 2**31, 2**32, 2**53, 2**63, 2**64.'
    ' Also: the last 320 indices for n = 2**31 .. 2**64.'
)
ASSUMPTIONS = [
    "itertools.combinations and math.comb are the reference",
    "the name-based spy on get_combination_at_sorted_index is optional (skipped when the kernel does not call it); what the kernel uses is decided behaviourally through its score",
    "the scripted-generator case assumes the kernel draws its triple indices with rng.choice(C(n,3), size, replace=False); any other use of the generator skips the case",
]


def budgets(tier):
    if tier == "quick":
        return {"examples": 4500, "max_s": 85, "shrink_s": 15, "shards": 1}
    return {"examples": 60000, "max_s": 600, "shrink_s": 60, "shards": 16}


N_EX = {"quick": 40, "thorough": 70}
_MAX_EXP = [19]  # generated sizes go up to 2**19 in the quick tier and 2**21 in the thorough tier (set in strategy())


def exhaustive(tier):
    for n in range(0, N_EX[tier] + 1):
        for k in range(0, 5):
            yield {"kind": "all", "n": n, "k": k}
    # runs of consecutive block starts C(m,k) (and their neighbours) at sizes far beyond a scorer's: 2**14 .. 2**21 items
    for k, n in [(2, 70001), (3, 20000), (3, 300000), (4, 20000), (4, 70001)] + ([(3, 2**20 + 7), (3, 2**21 - 3), (4, 300000), (2, 2**21), (4, 2**20 + 7), (3, 600011)] if tier != "quick" else []):
        yield {"kind": "blocks", "n": n, "k": k, "m0": n - 47, "count": 40}
    # index ranges that cross 2**31, 2**32, 2**53, 2**63, 2**64 (C(n,k) just below, inside and above), with numpy integer indices:
    # the low blocks (indices 0..) and the blocks around the largest representable index
    for k, n, itype in [(4, 121977, "int64"), (4, 121978, "int64"), (4, 133000, "int64"), (4, 145057, "int64"), (4, 121978, "uint64"), (3, 2345, "int32"), (3, 2346, "int32"), (2, 65537, "int32"), (2, 92683, "uint64"), (3, 378000, "int64"), (4, 21000, "uint64")] + ([(3, 3810779, "int64"), (4, 145056, "int64"), (2, 2**21, "int64")] if tier != "quick" else []):
        total = math.comb(n, k)
        lim = {"int64": 2**63 - 1, "uint64": 2**64 - 1, "int32": 2**31 - 1}[itype]
        # the largest m with C(m,k) within the type's range and within the index range
        m_hi = k
        lo_, hi_ = k, n
        while lo_ <= hi_:
            mid = (lo_ + hi_) // 2
            if math.comb(mid, k) <= min(lim, total - 1):
                m_hi, lo_ = mid, mid + 1
            else:
                hi_ = mid - 1
        yield {"kind": "blocks", "n": n, "k": k, "m0": k, "count": 6, "itype": itype}
        yield {"kind": "blocks", "n": n, "k": k, "m0": max(k, m_hi - 5), "count": 6, "itype": itype}
    # the top of the index range for n far beyond any array size (2**53 and more items: where floating point stops resolving
    # integers): the last few hundred indices, whose tuples sit next to each other at the top (cheap for a top-down walk)
    for k_, n_ in [(2, 2**53 + 5), (2, 2**60 + 12345), (3, 2**53 + 3), (2, 2**31 + 1), (2, 94906267)] + ([(3, 2**60 + 7), (4, 2**55 + 1), (2, 2**64 + 3), (2, 2**26 + 3), (3, 2**21 + 1)] if tier != "quick" else []):
        yield {"kind": "top", "n": n_, "k": k_, "count": 320}
    # a call interrupted (Ctrl-C, a timeout signal) at each of its lines in turn, in a process that then carries on
    for n_, k_, i_ in [(30, 3, 1234), (9, 4, 70)] + ([(200, 3, 100000), (40, 2, 500), (25, 4, 9000)] if tier != "quick" else []):
        yield {"kind": "interrupted", "n": n_, "k": k_, "i": i_}
    for n in range(3, 41 if tier == "thorough" else 22):
        c = math.comb(n, 3)
        for budget in sorted({1, 2, c - 1, c, c + 5, max(1, c // 2)}):
            if budget >= 1:
                yield {"kind": "kernel", "n": n, "budget": budget, "seed": n * 7 + budget}


@st.composite
def _sampled(draw):
    k = draw(st.sampled_from([1, 2, 2, 3, 3, 3, 4, 4]))
    # "for all n": mostly the sizes a scorer meets, one case in sixteen a magnitude drawn up to 2**21 (the index then needs up to 80 bits)
    n = draw(st.one_of(*([st.integers(41, 6000)] * 15 + [st.integers(13, _MAX_EXP[0]).flatmap(lambda e: st.integers(2 ** (e - 1), 2**e))])))
    total = math.comb(n, k)
    mode = draw(st.integers(0, 3))
    big = n > 6000
    if big and mode == 0:
        mode = 2  # (the walk from the top to a low index costs O(n) per level: at these sizes the indices stay in the upper blocks)
    if mode == 0:
        i = draw(st.integers(0, min(3, total - 1)))
    elif mode == 1:
        i = total - 1 - draw(st.integers(0, min(3, total - 1)))
    elif mode == 2:
        m = draw(st.integers(max(k, n - 300), n)) if big else draw(st.one_of(st.integers(k, n), st.integers(max(k, n - 300), n)))
        i = min(total - 1, max(0, math.comb(m, k) + draw(st.integers(-2, 2))))
    else:
        i = draw(st.integers(0, total - 1))
    # the index as the scoring code hands it over (numpy integer scalars out of rng.choice) or as a Python int
    return {"kind": "one", "n": n, "k": k, "i": i, "itype": draw(st.sampled_from(["int", "int", "int64", "int64", "uint64", "int32", "intp"]))}


@st.composite
def _kernel(draw):
    n = draw(st.integers(3, 40))
    c = math.comb(n, 3)
    budget = draw(st.one_of(st.integers(1, c + 5), st.sampled_from([c - 1, c, c + 1])))
    return {"kind": "kernel", "n": n, "budget": max(1, budget), "seed": draw(st.integers(0, 2**32 - 1)), "stutter": draw(randomctl.stutter_patterns())}


@st.composite
def _kernel_subset(draw):
    n = draw(st.sampled_from([3, 4, 5, 5, 6]))
    c = math.comb(n, 3)
    if n == 6:
        budget = draw(st.sampled_from([1, 2, 18, 19, 20, 25]))
    else:
        budget = draw(st.integers(1, c + 2))
    return {"kind": "kernel_subset", "n": n, "budget": budget, "seed": draw(st.integers(0, 2**32 - 1)), "stutter": draw(randomctl.stutter_patterns())}


@st.composite
def _kernel_scripted(draw):
    n = draw(st.integers(30, 400))
    return {"kind": "kernel_scripted", "n": n, "picks": draw(st.lists(st.integers(0, 10**9), min_size=5, max_size=40)), "seed": draw(st.integers(0, 2**32 - 1))}


@st.composite
def _scorer_subset_case(draw):
    n = draw(st.sampled_from([4, 5, 5]))
    c = math.comb(n, 3)
    return {"kind": "scorer_subset", "n": n, "budget": draw(st.integers(1, c + 1)), "max_chunk": draw(st.sampled_from([1, 1, 2, 3])), "n_plates": draw(st.integers(2, 5)), "seed": draw(st.integers(0, 2**32 - 1))}


@st.composite
def _kernel_many(draw):
    """thousands of triples in one call: either all of them (budget >= C(n,3) > 1024, incl. the default budget 5000), or a
    scripted non-round number of sampled indices"""
    if draw(st.booleans()):
        n = draw(st.integers(20, 40))
        c = math.comb(n, 3)
        budget = draw(st.sampled_from([c, c + 1, 5000 if c <= 5000 else c, 2 * c]))
        return {"kind": "kernel_all_many", "n": n, "budget": budget, "seed": draw(st.integers(0, 2**32 - 1))}
    n = draw(st.integers(40, 400))
    m = draw(st.one_of(st.integers(1025, 4100), st.sampled_from([1025, 2047, 2049, 2500, 3333, 4097])))
    return {"kind": "kernel_scripted_many", "n": n, "m": min(m, math.comb(n, 3) - 1), "seed": draw(st.integers(0, 2**32 - 1))}


def strategy(tier):
    _MAX_EXP[0] = 19 if tier == "quick" else 21
    return st.one_of(_sampled(), _sampled(), _sampled(), _kernel(), _kernel_subset(), _kernel_scripted(), _scorer_subset_case(), _kernel_many())


def _as_index(i, itype):
    """the index in the requested integer representation (when it fits), else as a Python int"""
    import numpy as np

    t = {"int64": np.int64, "uint64": np.uint64, "int32": np.int32, "intp": np.intp}.get(itype)
    if t is None:
        return i
    info = np.iinfo(t)
    return t(i) if info.min <= i <= info.max else i


def _stutter(case):
    """the generator handed to the scoring code: numpy's, or (drawn, or by the seed's residue for fixed cases) one whose consecutive
    draws sometimes coincide - the sampled triples must be pairwise distinct whatever the generator yields"""
    if "stutter" in case:
        return case["stutter"]
    return [None, None, [0, 1], [0, 0, 1, 1, 0]][case.get("seed", 0) % 4]


def _unrank3(i):
    """independent unranking of index i to the descending triple (a, b, c): i = C(a,3) + C(b,2) + c."""
    a = max(2, int(round((6 * i) ** (1.0 / 3.0))))
    while math.comb(a, 3) > i:
        a -= 1
    while math.comb(a + 1, 3) <= i:
        a += 1
    rem = i - math.comb(a, 3)
    b = max(1, int(math.isqrt(2 * rem)))
    while math.comb(b, 2) > rem:
        b -= 1
    while math.comb(b + 1, 2) <= rem:
        b += 1
    return (a, b, rem - math.comb(b, 2))


def _triple_terms(preds, var, d, triples, df=1.0):
    """log of each triple's summand of the documented estimator, one plate; preds/var: (n, E)."""
    import numpy as np

    t = np.asarray(triples, dtype=int)
    i, j, k = t[:, 0], t[:, 1], t[:, 2]
    vi, vj, vk = var[i], var[j], var[k]
    alpha = vi * vj + vj * vk + vi * vk
    quad = vk * (preds[i] - preds[j]) ** 2 + vj * (preds[i] - preds[k]) ** 2 + vi * (preds[j] - preds[k]) ** 2
    body = np.sum(-0.5 * np.log(alpha) - 0.5 * vi * vj * vk / alpha**2 * quad, axis=1)
    with np.errstate(divide="ignore"):
        return df * np.log(d[i, j] + d[j, k] + d[i, k]) + body


def _lse(x):
    import numpy as np

    m = np.max(x)
    return float(m + np.log(np.sum(np.exp(x - m))))


def _scorer_subset(case, gd):
    """The triples used through the scorer entry point (several plates, several internal groups): for EVERY plate the score must be
    the estimator over some set of min(budget, C(n,3)) pairwise distinct in-range triples."""
    import numpy as np

    from batchie.core import Theta, ThetaHolder
    from batchie.distance_calculation import ChunkedDistanceMatrix
    from vf import strategies as S

    n, budget = case["n"], case["budget"]
    r = np.random.default_rng(case["seed"])
    n_pl = case["n_plates"]
    rows = []
    for p_ in range(n_pl):
        for e in range(1 + (p_ % 3)):
            rows.append({"s": "s0", "p": "p%d" % p_, "t": ["t%d" % (e % 2), "t%d" % (2 + (p_ + e) % 2)], "d": [1.0, 1.0], "o": 0.5})
    screen = S.build_screen({"arity": 2, "control": "ctl", "rows": rows, "observed": []})
    means = r.normal(size=(n, len(rows)))
    var = 10.0 ** r.uniform(-1, 1, size=(n, len(rows)))

    class T(Theta):
        def __init__(self, i):
            self.i = i

        def _rows(self, data):
            return np.where(np.asarray(data.selection_vector))[0] if hasattr(data, "selection_vector") else np.arange(data.size)

        def predict_conditional_mean(self, data):
            return means[self.i][self._rows(data)]

        def predict_viability(self, data):
            return means[self.i][self._rows(data)]

        def predict_conditional_variance(self, data):
            return var[self.i][self._rows(data)]

        def private_parameters_dict(self):
            return {}

    holder = ThetaHolder(n_thetas=n)
    for i in range(n):
        holder.add_theta(T(i))
    d = r.uniform(0.1, 2.0, size=(n, n))
    d = d + d.T
    np.fill_diagonal(d, 0)
    dm = ChunkedDistanceMatrix(size=n)
    for i in range(n):
        for j in range(i):
            dm.add_value(i, j, d[i, j])
    plates = {int(p_.plate_id): p_ for p_ in screen.plates}
    scorer = attach(gd, "GaussianDBALScorer")(max_chunk=case["max_chunk"], max_triples=budget)
    # other scorer objects with other budgets: one constructed afterwards, one that has already scored these plates; both stay alive
    other_budget = 1 if min(budget, math.comb(n, 3)) > 1 else math.comb(n, 3) + 2
    decoys = [attach(gd, "GaussianDBALScorer")(max_chunk=case["max_chunk"] + 1, max_triples=other_budget)]
    decoys[0].score(plates=plates, distance_matrix=dm, samples=holder, rng=np.random.default_rng(case["seed"] + 3), progress_bar=False)
    decoys.append(attach(gd, "GaussianDBALScorer")(max_chunk=1, max_triples=other_budget))
    if n >= 4 and case["seed"] % 2 == 0:
        # the scorer object has been used before with FEWER posterior samples (an earlier round of a simulation)
        small = ThetaHolder(n_thetas=n - 1)
        for i in range(n - 1):
            small.add_theta(T(i))
        dm_small = ChunkedDistanceMatrix(size=n - 1)
        for i in range(n - 1):
            for j in range(i):
                dm_small.add_value(i, j, d[i, j])
        scorer.score(plates=plates, distance_matrix=dm_small, samples=small, rng=np.random.default_rng(case["seed"] + 2), progress_bar=False)
    got = scorer.score(plates=plates, distance_matrix=dm, samples=holder, rng=randomctl.make_rng(case["seed"] + 1, _stutter(case)), progress_bar=False)
    c = math.comb(n, 3)
    b = min(budget, c)
    all_triples = [tuple(sorted(x, reverse=True)) for x in itertools.combinations(range(n), 3)]
    for pid, plate in plates.items():
        rws = np.where(np.asarray(plate.selection_vector))[0]
        terms = _triple_terms(means[:, rws], var[:, rws], d, all_triples)
        score = float(got[pid])
        ok = any(abs(_lse(terms[list(S_)]) - score) <= 1e-9 * (1 + abs(score)) for S_ in itertools.combinations(range(c), b))
        require(ok, "scorer.score_is_a_set_of_distinct_triples", lambda: "n=%d budget=%d max_chunk=%d: the score %r of plate %d is not the estimator over any %d pairwise distinct in-range triples" % (n, budget, case["max_chunk"], score, pid, b))
    return {"nontrivial": n_pl > case["max_chunk"], "labels": ["scorer_subset.groups>1" if n_pl > case["max_chunk"] else "scorer_subset.one-group"]}


def _behavioural_kernel(case, gd):
    """What the kernel USES is observed through its result, not through any internal name: the returned score must be the
    estimator over some set of pairwise distinct in-range triples of the right size (small n: search over subsets), and,
    with a scripted generator handing it chosen indices, over exactly the triples those indices unrank to."""
    import numpy as np

    f = attach(gd, "dbal_fast_gauss_scoring_vectorized")
    n = case["n"]
    r = np.random.default_rng(case["seed"])
    E = 2
    preds = r.normal(size=(n, E))
    var = 10.0 ** r.uniform(-1, 1, size=(n, E))
    d = r.uniform(0.1, 2.0, size=(n, n))
    # a non-default distance weight (public option of the kernel) and, then, distances over several orders of magnitude
    df = [1.0, 1.0, 2.0, 8.0, 0.5][case["seed"] % 5]
    if case["seed"] % 5 >= 2:
        # posterior samples in two groups: those of one group predict almost the same (tiny distances among them, 10^-9..10^-5),
        # the groups are far apart; the predictions follow the groups, so the close triples carry the weight of the estimator
        x = np.where(np.arange(n) % 2 == 0, 0.0, 1.0) + 10.0 ** r.uniform(-4.5, -2.5, size=n) * r.choice([-1.0, 1.0], size=n)
        d = 0.5 * (x[:, None] - x[None, :]) ** 2
        preds = 25.0 * x[:, None] + 0.01 * r.normal(size=(n, E))
    d = d + d.T
    np.fill_diagonal(d, 0)
    if case["seed"] % 3 == 0 and n >= 4:
        # two posterior samples that predict alike on the reference experiments (distance exactly 0, equal distance rows) yet differently
        # on this plate: both are samples, every triple containing either of them counts
        d[1, :] = d[0, :]
        d[:, 1] = d[:, 0]
        d[0, 1] = d[1, 0] = d[1, 1] = 0.0
    c = math.comb(n, 3)
    kw = {} if df == 1.0 else {"distance_factor": df}
    if case["kind"] == "kernel_all_many":
        # the budget covers all C(n,3) > 1024 triples: the score is the estimator over every triple exactly once
        score = float(f(preds[None], var[None], d, randomctl.make_rng(case["seed"] + 1, _stutter(case)), max_combos=case["budget"], **kw)[0])
        all_triples = [tuple(sorted(x, reverse=True)) for x in itertools.combinations(range(n), 3)]
        expect = _lse(_triple_terms(preds, var, d, all_triples, df))
        require(abs(score - expect) <= 1e-9 * (1 + abs(expect)), "kernel.all_triples_once", lambda: "n=%d budget=%d: the score is %r, the estimator over each of the %d triples exactly once is %r (exp difference x count: %r)" % (n, case["budget"], score, c, expect, (math.exp(score - expect) - 1) * c))
        return {"nontrivial": True, "labels": ["kernel_all_many.triples>=%d" % (1024 * (c // 1024))]}
    if case["kind"] == "kernel_subset":
        b = min(case["budget"], c)
        score = float(f(preds[None], var[None], d, randomctl.make_rng(case["seed"] + 1, _stutter(case)), max_combos=case["budget"], **kw)[0])
        all_triples = [tuple(sorted(x, reverse=True)) for x in itertools.combinations(range(n), 3)]
        terms = _triple_terms(preds, var, d, all_triples, df)
        ok = False
        for S in itertools.combinations(range(c), b):
            if abs(_lse(terms[list(S)]) - score) <= 1e-9 * (1 + abs(score)):
                ok = True
                break
        require(ok, "kernel.score_is_a_set_of_distinct_triples", lambda: "n=%d budget=%d: the score %r is not the estimator over any %d pairwise distinct in-range triples (all triples give %r)" % (n, case["budget"], score, b, _lse(terms)))
        return {"nontrivial": n >= 4, "labels": ["kernel_subset.all" if b == c else "kernel_subset.subsampled"]}
    # scripted generator: indices at the starts/ends of the blocks C(a,3), plus drawn ones
    idx = set()
    if case["kind"] == "kernel_scripted_many":
        # a pure function of the case: m distinct indices spread over the whole range
        idx = set(int(x) for x in np.random.default_rng(case["seed"] + 5).choice(c, size=case["m"], replace=False))
    for pick in case.get("picks", []):
        a = 3 + pick % max(1, n - 3)
        for delta in (-1, 0, 1):
            i = math.comb(a, 3) + delta
            if 0 <= i < c:
                idx.add(i)
        idx.add(pick % c)
    if case["kind"] != "kernel_scripted_many":
        idx |= {0, c - 1}
    idx = sorted(idx)

    class Scripted:
        def __init__(self):
            self.used = False

        def choice(self, a, size=None, replace=True, *args, **kw):
            if int(a) != c or replace is not False or int(size) != len(idx):
                raise Skip()
            self.used = True
            return np.array(idx, dtype=np.int64)

        def __getattr__(self, name):
            raise Skip()

    g = Scripted()
    score = float(f(preds[None], var[None], d, g, max_combos=len(idx), **kw)[0])
    if not g.used:
        raise Skip()
    triples = [_unrank3(i) for i in idx]
    expect = _lse(_triple_terms(preds, var, d, triples, df))
    require(abs(score - expect) <= 1e-9 * (1 + abs(expect)), "kernel.uses_the_unranked_triples", lambda: "n=%d: with the sampled indices %r... the score is %r, the estimator over the triples those indices denote is %r" % (n, idx[:6], score, expect))
    if case["kind"] == "kernel_scripted_many":
        return {"nontrivial": True, "labels": ["kernel_scripted_many"], "counts": {"scripted_indices": len(idx)}}
    return {"nontrivial": True, "labels": ["kernel_scripted.n>=247" if n >= 247 else "kernel_scripted"], "counts": {"scripted_indices": len(idx)}}


def _rank(t):
    k = len(t)
    return sum(math.comb(c, k - j) for j, c in enumerate(t))


def _successor(t, n):
    """colex successor of a strictly descending tuple (ascending order of descending tuples)."""
    a = sorted(t)  # ascending
    k = len(a)
    for j in range(k):
        nxt = a[j + 1] if j + 1 < k else n
        if a[j] + 1 < nxt:
            a[j] += 1
            for m in range(j):
                a[m] = m
            return tuple(sorted(a, reverse=True))
    return None


def check_case(case):
    from batchie.scoring import gaussian_dbal as gd

    unrank = attach(gd, "get_combination_at_sorted_index")
    kind = case["kind"]
    if kind in ("kernel_subset", "kernel_scripted", "kernel_all_many", "kernel_scripted_many"):
        return _behavioural_kernel(case, gd)
    if kind == "scorer_subset":
        return _scorer_subset(case, gd)
    if kind == "all":
        n, k = case["n"], case["k"]
        ref = sorted(tuple(sorted(c, reverse=True)) for c in itertools.combinations(range(n), k))
        got = [tuple(int(x) for x in unrank(i, n, k)) for i in range(len(ref))]
        if got != ref:
            bad = next(i for i, (a, b) in enumerate(zip(got, ref)) if a != b)
            raise Violation("unrank.enumeration", "n=%d k=%d index %d: got %r expected %r" % (n, k, bad, got[bad], ref[bad]))
        return {"nontrivial": k >= 2 and len(ref) >= 3, "labels": ["all.k=%d" % k], "counts": {"tuples_compared": len(ref)}}
    if kind == "one":
        n, k, i = case["n"], case["k"], case["i"]
        total = math.comb(n, k)
        t = tuple(int(x) for x in unrank(_as_index(i, case.get("itype")), n, k))
        require(len(t) == k, "unrank.length", lambda: "n=%d k=%d i=%d -> %r" % (n, k, i, t))
        require(all(0 <= x < n for x in t), "unrank.range", lambda: "n=%d k=%d i=%d -> %r" % (n, k, i, t))
        require(all(a > b for a, b in zip(t, t[1:])), "unrank.descending", lambda: "n=%d k=%d i=%d -> %r" % (n, k, i, t))
        require(_rank(t) == i, "unrank.rank_roundtrip", lambda: "n=%d k=%d i=%d -> %r has rank %d" % (n, k, i, t, _rank(t)))
        if i + 1 < total:
            t2 = tuple(int(x) for x in unrank(_as_index(i + 1, case.get("itype")), n, k))
            require(t2 == _successor(t, n), "unrank.successor", lambda: "n=%d k=%d: unrank(%d)=%r, unrank(%d)=%r" % (n, k, i, t, i + 1, t2))
        return {"nontrivial": k >= 2 and 0 < i < total - 1, "labels": ["one.k=%d" % k, "first" if i == 0 else "last" if i == total - 1 else "interior"]}
    if kind == "interrupted":
        from vf import interrupt

        n, k, i = case["n"], case["k"], case["i"]
        points = 0
        for point in range(1, 2000):
            gd_ = interrupt.private_module("batchie.scoring.gaussian_dbal")  # fresh module-level state for every scenario
            f_ = gd_.get_combination_at_sorted_index
            how, _ = interrupt.interrupted_at(lambda: f_(i, n, k), point)
            if how == "completed":
                break
            points += 1
            # the same process carries on: the mapping is still the bijection, for sizes below, at and above the interrupted call's
            for n2, k2 in ((5, 2), (6, 3), (7, 4), (n, min(k, 2)), (min(n + 3, 14), 3), (12, k)):
                total = math.comb(n2, k2)
                idx = range(total) if total <= 600 else list(range(0, total, max(1, total // 300))) + [total - 1]
                want = sorted((tuple(c_) for c_ in itertools.combinations(range(n2 - 1, -1, -1), k2))) if total <= 600 else None
                for j in idx:
                    t = tuple(int(x) for x in f_(j, n2, k2))
                    require(len(t) == k2 and all(0 <= x < n2 for x in t) and all(a > b for a, b in zip(t, t[1:])) and _rank(t) == j, "unrank.after_interrupted_call", lambda: "after a call get_combination_at_sorted_index(%d, %d, %d) that was interrupted at its line event %d, index %d of n=%d k=%d maps to %r (rank %s)" % (i, n, k, point, j, n2, k2, t, _rank(t) if all(a > b for a, b in zip(t, t[1:])) else "undefined"))
                if want is not None:
                    require([tuple(int(x) for x in f_(j, n2, k2)) for j in range(total)] == want, "unrank.after_interrupted_call", lambda: "after an interrupted call (line event %d) the enumeration for n=%d k=%d is not the ascending list of descending tuples" % (point, n2, k2))
        require(points >= 3, "harness", "no interruption point inside the call")
        return {"nontrivial": True, "labels": ["interrupted-call"], "counts": {"interruption_points": points}}
    if kind == "top":
        n, k = case["n"], case["k"]
        total = math.comb(n, k)
        prev = None
        for j in range(case["count"]):
            i = total - 1 - j
            t = tuple(int(x) for x in unrank(i, n, k))
            require(len(t) == k and all(0 <= x < n for x in t) and all(a > b for a, b in zip(t, t[1:])) and _rank(t) == i, "unrank.top_of_range", lambda: "n=%d k=%d: index C(n,k)-1-%d maps to %r, whose rank is %s" % (n, k, j, t, _rank(t) if all(a > b for a, b in zip(t, t[1:])) else "undefined"))
            if prev is not None:
                require(prev == _successor(t, n), "unrank.top_of_range.successor", lambda: "n=%d k=%d: indices C(n,k)-1-%d and the next map to %r and %r" % (n, k, j, t, prev))
            prev = t
        return {"nontrivial": True, "labels": ["top-of-range", "n>=2^%d" % (n.bit_length() - 1)]}
    if kind == "blocks":
        n, k = case["n"], case["k"]
        for m in range(case["m0"], case["m0"] + case["count"]):
            for delta in (-1, 0, 1):
                i = math.comb(m, k) + delta
                t = tuple(int(x) for x in unrank(_as_index(i, case.get("itype")), n, k))
                require(len(t) == k and all(0 <= x < n for x in t) and all(a > b for a, b in zip(t, t[1:])), "unrank.blocks.descending_in_range", lambda: "n=%d k=%d i=C(%d,%d)%+d -> %r" % (n, k, m, k, delta, t))
                require(_rank(t) == i, "unrank.blocks.rank_roundtrip", lambda: "n=%d k=%d i=C(%d,%d)%+d=%d -> %r, which has rank %d" % (n, k, m, k, delta, i, t, _rank(t)))
        return {"nontrivial": True, "labels": ["blocks.k=%d" % k, "n>=2^%d" % (n.bit_length() - 1)]}
    if kind == "kernel":
        import numpy as np

        n, budget = case["n"], case["budget"]
        rec = []
        orig = unrank

        def spy(index, nn, kk):
            r = orig(index, nn, kk)
            rec.append((int(index), int(nn), int(kk), tuple(int(x) for x in r)))
            return r

        rng = np.random.default_rng(case["seed"])
        preds = rng.normal(size=(2, n, 2))
        var = np.ones((2, n, 2))
        d = rng.random((n, n))
        d = d + d.T
        np.fill_diagonal(d, 0)
        gd.get_combination_at_sorted_index = spy
        try:
            attach(gd, "dbal_fast_gauss_scoring_vectorized")(preds, var, d, randomctl.make_rng(case["seed"] + 1, _stutter(case)), max_combos=budget)
        finally:
            gd.get_combination_at_sorted_index = orig
        c = math.comb(n, 3)
        triples = [r[3] for r in rec]
        if not rec:
            # the kernel no longer goes through this helper (a refactor): nothing to observe here, the behavioural
            # kernel cases (kernel_subset / kernel_scripted) decide
            return {"nontrivial": False, "labels": ["kernel.helper-not-used"]}
        require(all(r[1] == n and r[2] == 3 for r in rec), "kernel.arguments", lambda: "unranking called with (n,k) != (%d,3): %r" % (n, rec[:3]))
        require(len(triples) == min(c, budget), "kernel.count", lambda: "n=%d budget=%d: %d triples used, expected %d" % (n, budget, len(triples), min(c, budget)))
        require(len(set(triples)) == len(triples), "kernel.distinct", lambda: "n=%d budget=%d: repeated triple among %r" % (n, budget, triples[:10]))
        require(all(len(t) == 3 and len(set(t)) == 3 and all(0 <= x < n for x in t) for t in triples), "kernel.range", lambda: "n=%d: bad triple in %r" % (n, triples[:10]))
        if budget >= c:
            ref = set(tuple(sorted(x, reverse=True)) for x in itertools.combinations(range(n), 3))
            require(set(tuple(sorted(t, reverse=True)) for t in triples) == ref, "kernel.complete", lambda: "n=%d budget=%d: not all triples used" % (n, budget))
        return {"nontrivial": n >= 4, "labels": ["kernel.all" if budget >= c else "kernel.subsampled"]}
    raise Violation("case.kind", "unknown kind %r" % kind)
