"""C11 - retrospective preparation conserves experiments; the hold-out split partitions."""
import collections
import math

import numpy as np
from hypothesis import strategies as st

from vf import retro
from vf import randomctl
from vf import strategies as S
from vf.engine import Violation, require

ID = "C11"
LEVEL = "exploration"
TECHNIQUE = "Hypothesis-generated screens x every shipped generator/smoother/hold-out function; multiset conservation / inclusion / partition oracles on (sample, treatments, doses, observation bits[, plate, mask]) rows"
RULE = (
    "screens (two treatment slots; one in five with three or one) with duplicate conditions, single-agent rows, partial combinations, 1..5 samples, observed and unobserved plates of any size (single-sample-per-plate and "
    "arbitrary layouts); every shipped generator (PlatePermutation with/without force_include, SampleSegregating, Pairwise) and smoother (MergeMin, "
    "MergeTopBottom, FixedSize, OptimalSize, NPlatePerCellLine, BatchieEnsemble) with drawn parameters and generator seed (3 operators per case), and both "
    "hold-out functions with fraction from {0,1,.1,.15,.5} U [0,1]. Operators that raise are counted, not flagged. Non-trivial = input has a duplicate "
    "condition and both observed and unobserved plates. distinct = distinct case JSON."
    ' In half the cases the generator handed over is a PCG64 whose stream repeats words at drawn positions (vf.randomctl.StutterGenerator).'
    ' The fraction is, in a quarter of the cases, an exact number object (Fraction, Decimal, int) with the exact ceiling as reference.'
    ' One case in six relabels every plate with an embedded NUL character (batch\\x00<name>).'
)
ASSUMPTIONS = [
    "ceil(size*fraction) is evaluated in float arithmetic as documented (20*0.15 -> 4)",
    "an operator that raises is outside the quantifier ('for which it returns'); the exception class histogram is part of the evidence",
]


def budgets(tier):
    if tier == "quick":
        return {"examples": 220, "max_s": 80, "shrink_s": 20, "shards": 1}
    return {"examples": 2000, "max_s": 700, "shrink_s": 90, "shards": 16}


@st.composite
def _case(draw):
    if draw(st.integers(0, 3)) == 0:
        # a layout on which the pairwise generator returns (it raises on most random layouts), incl. vehicle-only rows
        sc = draw(retro.pairwise_screen())
        ops = [{"name": "Pairwise", "subset_size": draw(st.sampled_from([1, 1, 2])), "anchor_size": draw(st.sampled_from([0, 0, 1, 2]))}, draw(retro.operator(["SampleSegregating", "PlatePermutation", "FixedSize", "OptimalSize"]))]
    else:
        sc = draw(retro.retro_screen(arity=draw(st.sampled_from([2, 2, 2, 3, 1]))))
        names = retro.GENERATORS + retro.SMOOTHERS
        if not sc["ssp"]:
            names = [n for n in names if n not in retro.NEEDS_SINGLE_SAMPLE_PLATES] + ["MergeMin"]
        else:
            # the smoothers that merge plates in place (the only operators that write into the screen they work on) twice as often
            names = names + ["MergeMin", "MergeMin", "MergeTopBottom", "BatchieEnsemble"]
        ops = [draw(retro.operator(names)) for _ in range(3)]
    return {
        "screen": sc,
        "ops": ops,
        "seed": draw(st.integers(0, 2**32 - 1)),
        "stutter": draw(randomctl.stutter_patterns()),  # a generator whose consecutive draws sometimes coincide
        "clash_names": draw(st.integers(0, 3)) == 0,
        "nul_plates": draw(st.integers(0, 5)) == 0,
        "fraction": draw(st.one_of(st.sampled_from([0.0, 1.0, 0.1, 0.15, 0.5]), st.floats(min_value=0, max_value=1))),
        "fraction_exact": draw(st.sampled_from([None, None, None, ["Fraction", 7, 25], ["Fraction", 1, 3], ["Fraction", 1, 5], ["Fraction", 3, 10], ["Decimal", "0.28"], ["Decimal", "0.1"], ["Decimal", "0.2"], ["Decimal", "1e-400"], ["Fraction", 1, 10**30], ["Decimal", "0.6"], ["int", 1], ["int", 0]])),
    }


def strategy(tier):
    return _case()


def exhaustive(tier):
    # fixed layouts on which every merging smoother really merges plates whose experiments carry pairwise different values
    for a in (2, 1, 3):
        rows = []
        for s_ in range(2):
            for j in range(5):
                for r_ in range(1 + (j + s_) % 3):
                    k_ = len(rows)
                    rows.append({"s": "s%d" % s_, "p": "%02d_p%d_%d" % ((7 * j + 3 * s_) % 11, s_, j), "t": (["t%d" % (k_ % 4), "t%d" % ((k_ + 1 + r_) % 4), "ctl"])[:a], "d": ([1.0, 2.0, 0.0])[:a], "o": round(0.05 + 0.03 * k_, 4)})
        rows.append({"s": "s0", "p": "zz_obs", "t": (["t0", "ctl", "ctl"])[:a], "d": ([1.0, 0.0, 0.0])[:a], "o": 0.9})
        sc = {"arity": a, "control": "ctl", "rows": rows, "observed": ["zz_obs"], "ns": 2, "nt": 8, "ssp": True}
        yield {"screen": sc, "ops": [{"name": "MergeMin", "min_size": 4}, {"name": "MergeTopBottom", "n_iterations": 2}, {"name": "BatchieEnsemble", "min_size": 3, "n_iterations": 1, "k": 1}], "seed": 5 + a, "fraction": 0.5, "fraction_exact": [None, ["Fraction", 7, 25], ["Decimal", "0.28"]][a % 3]}


def _included(small, big):
    return all(big.get(k, 0) >= v for k, v in small.items())


def check_case(case):
    from batchie.retrospective import create_plate_balanced_holdout_set_among_masked_plates, create_random_holdout

    sc = case["screen"]
    if case.get("clash_names") and sc["observed"]:
        # the observed plates carry names of the kind the generators hand out themselves (a screen that was generated, partly
        # revealed and is prepared again)
        ren_ = {p_: "generated_plate_%d" % i_ for i_, p_ in enumerate(sorted(sc["observed"]))}
        sc = dict(sc, rows=[dict(r, p=ren_.get(r["p"], r["p"])) for r in sc["rows"]], observed=sorted(ren_.values()))
    if case.get("nul_plates"):
        # plate labels that agree up to an embedded NUL character (barcodes with a separator byte): different labels all the same -
        # nothing here is written to an archive, so any unicode string is a legal label
        ren_ = {p_: "batch\x00" + p_ for p_ in {r["p"] for r in sc["rows"]}}
        sc = dict(sc, rows=[dict(r, p=ren_[r["p"]]) for r in sc["rows"]], observed=sorted(ren_[p_] for p_ in sc["observed"]))
    labels = []
    counts = collections.Counter()
    for op in case["ops"]:
        screen = S.build_screen(sc)
        snap = retro.snapshot(screen)
        full_in = retro.multiset(screen)
        obs_rows = [i for i in range(screen.size) if bool(screen.observation_mask[i])]
        observed_in = retro.multiset(screen, obs_rows, with_plate=True, with_mask=True)
        name = op["name"]
        try:
            out = retro.apply_operator(op, screen, randomctl.make_rng(case["seed"], case.get("stutter")))
        except Exception as e:  # outside the quantifier ("for which it returns")
            labels.append("raised:%s:%s" % (name, type(e).__name__))
            require(retro.unchanged(screen, snap), name + ".input_untouched_on_error", "input screen was modified by an operator that then raised")
            continue
        counts["operator_runs"] += 1
        labels.append("ran:" + name)
        require(retro.unchanged(screen, snap), name + ".input_untouched", "the input screen object was modified")
        full_out = retro.multiset(out)
        if name in retro.GENERATORS:
            require(full_out == full_in, name + ".conserves_all", lambda: "experiments changed: lost %r, invented %r" % (list((full_in - full_out).elements())[:3], list((full_out - full_in).elements())[:3]))
        else:
            require(_included(full_out, full_in), name + ".subcollection", lambda: "output contains experiments that are not input experiments (or duplicates them): %r" % (list((full_out - full_in).elements())[:3],))
        out_obs_rows = [i for i in range(out.size) if bool(out.observation_mask[i])]
        observed_out = retro.multiset(out, out_obs_rows, with_plate=True, with_mask=True)
        require(observed_out == observed_in, name + ".observed_pass_through", lambda: "observed part changed: lost %r, gained %r" % (list((observed_in - observed_out).elements())[:3], list((observed_out - observed_in).elements())[:3]))

        # the same Screen object is prepared again after a plate has been revealed in place (set_observed)
        un_plates = sorted({str(screen.plate_names[i]) for i in range(screen.size) if not bool(screen.observation_mask[i])})
        if len(un_plates) >= 2:
            sel = np.asarray(screen.plate_names) == un_plates[case["seed"] % len(un_plates)]
            screen.set_observed(sel, np.linspace(0.3, 0.6, int(sel.sum())))
            snap2 = retro.snapshot(screen)
            full_in2 = retro.multiset(screen)
            obs_rows2 = [i for i in range(screen.size) if bool(screen.observation_mask[i])]
            observed_in2 = retro.multiset(screen, obs_rows2, with_plate=True, with_mask=True)
            try:
                out2 = retro.apply_operator(op, screen, randomctl.make_rng(case["seed"] + 1, case.get("stutter")))
            except Exception as e:
                labels.append("raised:%s:%s" % (name, type(e).__name__))
                continue
            counts["operator_runs_after_inplace_reveal"] += 1
            require(retro.unchanged(screen, snap2), name + ".second_pass.input_untouched", "the input screen object was modified")
            full_out2 = retro.multiset(out2)
            if name in retro.GENERATORS:
                require(full_out2 == full_in2, name + ".second_pass.conserves_all", lambda: "after an in-place reveal the same screen is prepared again and experiments change: lost %r, invented/duplicated %r" % (list((full_in2 - full_out2).elements())[:3], list((full_out2 - full_in2).elements())[:3]))
            else:
                require(_included(full_out2, full_in2), name + ".second_pass.subcollection", lambda: "after an in-place reveal the same screen is smoothed again and the output holds experiments that are not (or more often than) input experiments: %r" % (list((full_out2 - full_in2).elements())[:3],))
            o2 = retro.multiset(out2, [i for i in range(out2.size) if bool(out2.observation_mask[i])], with_plate=True, with_mask=True)
            require(o2 == observed_in2, name + ".second_pass.observed_pass_through", "after an in-place reveal the observed part does not pass through unchanged")

    # ---- hold-out splits
    for hname, f in (("plate_balanced", create_plate_balanced_holdout_set_among_masked_plates), ("random", create_random_holdout), ("plate_balanced_after_merge", create_plate_balanced_holdout_set_among_masked_plates)):
        screen = S.build_screen(sc)
        if hname == "plate_balanced_after_merge":
            # two unobserved plates of the same object are merged in place first (plate ids of the later plates move)
            un_ = sorted(int(p_.plate_id) for p_ in screen.plates if not bool(np.any(p_.observation_mask)))
            if len(un_) < 2 or not sc["observed"]:
                continue
            a_, b_ = un_[case["seed"] % len(un_)], un_[(case["seed"] // 7 + 1) % len(un_)]
            if a_ == b_:
                b_ = un_[(un_.index(a_) + 1) % len(un_)]
            screen.get_plate(a_).merge(screen.get_plate(b_))
        snap = retro.snapshot(screen)
        frac = case["fraction"]
        if case.get("fraction_exact"):
            # the fraction as an exact number object (a rational, a decimal, an integer 0 / 1): ceil(fraction x size) is then exact
            import decimal
            import fractions

            kind_, *args_ = case["fraction_exact"]
            frac = fractions.Fraction(*args_) if kind_ == "Fraction" else decimal.Decimal(args_[0]) if kind_ == "Decimal" else int(args_[0])
        train, hold = f(screen, frac, randomctl.make_rng(case["seed"], case.get("stutter")))
        require(retro.unchanged(screen, snap), hname + ".input_untouched", "hold-out split modified its input")
        whole = retro.multiset(screen, with_plate=True)
        parts = retro.multiset(train, with_plate=True) + retro.multiset(hold, with_plate=True)
        require(parts == whole, hname + ".partition", lambda: "training + hold-out != input: missing %r, extra %r" % (list((whole - parts).elements())[:3], list((parts - whole).elements())[:3]))
        require(bool(np.all(hold.observation_mask)) if hold.size else True, hname + ".holdout_observed", "hold-out is not fully observed")
        require(S.mapping_equal(train.treatment_mapping, screen.treatment_mapping) and S.mapping_equal(hold.treatment_mapping, screen.treatment_mapping), hname + ".treatment_mapping", "a half does not carry the parent's treatment mapping")
        require(S.mapping_equal(train.sample_mapping, screen.sample_mapping) and S.mapping_equal(hold.sample_mapping, screen.sample_mapping), hname + ".sample_mapping", "a half does not carry the parent's sample mapping")
        # training mask == input mask on the kept rows (rows with mask, as multisets)
        tm = retro.multiset(train, with_plate=True, with_mask=True)
        im = retro.multiset(screen, with_plate=True, with_mask=True)
        require(_included(tm, im), hname + ".training_mask_kept", "training rows changed their observation status")
        if hname.startswith("plate_balanced"):
            hold_by_plate = collections.Counter(str(p) for p in hold.plate_names)
            for p in sorted(set(str(x) for x in screen.plate_names)):
                size = int(np.sum(np.asarray(screen.plate_names) == p))
                observed = bool(np.asarray(screen.observation_mask)[np.asarray(screen.plate_names) == p][0])
                exp = 0 if observed else math.ceil(size * frac)
                require(hold_by_plate.get(p, 0) == exp, hname + ".per_plate_count", lambda: "plate %r (size %d, %s): %d rows held out, expected %d (fraction %r)" % (p, size, "observed" if observed else "unobserved", hold_by_plate.get(p, 0), exp, frac))
        else:
            require(hold.size == math.ceil(screen.size * frac), hname + ".count", lambda: "random hold-out has %d rows, expected %d" % (hold.size, math.ceil(screen.size * frac)))
        counts["holdout_runs"] += 1
        for bad in (-0.1, 1.5):
            try:
                f(screen, bad, np.random.default_rng(0))
            except ValueError:
                continue
            raise Violation(hname + ".fraction_range", "fraction %r accepted" % bad)

    screen = S.build_screen(sc)
    keys = [retro.row_key(screen, i)[:3] for i in range(screen.size)]
    dup = len(set(keys)) < len(keys)
    both = bool(sc["observed"]) and len(sc["observed"]) < len({r["p"] for r in sc["rows"]})
    if dup:
        labels.append("duplicate-condition")
    return {"nontrivial": dup and both, "labels": sorted(set(labels)), "counts": dict(counts)}
