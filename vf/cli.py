"""Run a batchie command-line entry point in-process."""
import importlib
import logging
import sys


class CliExit(Exception):
    pass


def run_cli(name, argv):
    mod = importlib.import_module("batchie.cli." + name)
    old = sys.argv
    sys.argv = [name] + [str(a) for a in argv]
    try:
        mod.main()
    except SystemExit as e:
        if e.code not in (0, None):
            raise CliExit("%s exited with %r (argv %r)" % (name, e.code, argv))
    finally:
        sys.argv = old
        logging.getLogger("batchie").handlers[:] = []
