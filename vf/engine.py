"""Budgeted Hypothesis driver: sharding, smallest-failure capture, known findings, replay, evidence.

A check module (checks/cNN_*.py) provides

    ID, LEVEL, RULE, ASSUMPTIONS, TECHNIQUE
    budgets(tier)         -> {"examples": int, "max_s": float, "shrink_s": float, "shards": int}
    strategy(tier)        -> hypothesis strategy yielding a JSON-able case          (optional)
    exhaustive(tier)      -> iterable of JSON-able cases enumerated completely      (optional)
    check_case(case)      -> {"nontrivial": bool, "labels": [...], "key": hashable} raises Violation
    KNOWN_PREDICATES      -> {finding id: predicate(case, violation)}               (optional)

Everything random comes from Hypothesis, seeded from VERIF_SEED; a replay bypasses Hypothesis.
"""
import collections
import hashlib
import json
import math
import os
import sys
import time
import traceback

from .tree import HarnessError, SRC

ROOT = os.path.dirname(os.path.dirname(os.path.abspath(__file__)))
# where evidence and newly found replays are written (mutant runs redirect it so committed evidence stays intact)
OUT = os.path.abspath(os.environ.get("VERIF_OUT", ROOT))


class Violation(Exception):
    def __init__(self, sub_check, message, detail=None):
        super().__init__("%s: %s" % (sub_check, message))
        self.sub_check = sub_check
        self.message = message
        self.detail = detail


class Skip(Exception):
    """Generated case is outside the property's domain (counted, never a violation)."""


def require(cond, sub_check, message, detail=None):
    if not cond:
        raise Violation(sub_check, message() if callable(message) else message, detail)


def canonical(case):
    return json.dumps(case, sort_keys=True, allow_nan=True, default=_default)


def _default(o):
    try:
        import numpy as np

        if isinstance(o, np.generic):
            return o.item()
        if isinstance(o, np.ndarray):
            return o.tolist()
    except Exception:
        pass
    if isinstance(o, (set, frozenset)):
        return sorted(o)
    if isinstance(o, bytes):
        return o.hex()
    return repr(o)


def case_hash(case):
    return hashlib.sha1(canonical(case).encode("utf-8", "surrogatepass")).hexdigest()[:16]


def sanitize(o, depth=0):
    """Make a case safe for strict-JSON evidence (no NaN/inf literals, bounded size)."""
    if isinstance(o, float):
        if math.isnan(o) or math.isinf(o):
            return repr(o)
        return o
    if isinstance(o, dict):
        return {str(k): sanitize(v, depth + 1) for k, v in o.items()}
    if isinstance(o, (list, tuple)):
        return [sanitize(v, depth + 1) for v in o]
    if isinstance(o, (str, int, bool)) or o is None:
        return o
    return sanitize(json.loads(json.dumps(o, default=_default, allow_nan=True)), depth + 1)


def in_batchie(tb):
    """True if the traceback passes through a frame of the repository under test."""
    root = os.path.dirname(SRC)  # repo root: src/ and nextflow/
    for fs in traceback.extract_tb(tb):
        fn = os.path.realpath(fs.filename)
        if fn.startswith(os.path.realpath(root) + os.sep) or "_batchie_orchestrator_" in fs.name:
            return fs
    return None


def innermost_batchie_frame(tb):
    root = os.path.realpath(os.path.dirname(SRC)) + os.sep
    last = None
    for fs in traceback.extract_tb(tb):
        if os.path.realpath(fs.filename).startswith(root):
            last = fs
    return last


INTERRUPT_COUNTS = {"interrupted_first_runs": 0}


def _interrupted_first(mod, case):
    """(process-configuration sweep) for one case in three, the case is first evaluated with a KeyboardInterrupt injected at a
    line of the tree under test chosen by the case's hash (vf.interrupt) and whatever that run raises is discarded; the case is then
    evaluated normally.  The interrupted run promises nothing - but it must not leave module-level or class-level state of the
    package behind that makes a later, ordinary use (on freshly built objects) go wrong."""
    import hashlib

    from . import interrupt

    h = int(hashlib.sha1(json.dumps(sanitize(case), sort_keys=True, default=str).encode()).hexdigest()[:12], 16)
    if h % 3:
        return
    k = 1 + (h // 3) % [40, 400, 4000][(h // 7) % 3]
    try:
        how, _ = interrupt.interrupted_at(lambda: mod.check_case(case), k)
        if how == "interrupted":
            INTERRUPT_COUNTS["interrupted_first_runs"] += 1
    except BaseException:  # noqa: the first evaluation is only there to be interrupted
        pass


def run_case(mod, case):
    """check_case with the exception policy: Violation stays; an unanticipated exception raised from inside the
    repository's code is a violation ('handled or rejected cleanly' is part of every property's returns-clause);
    anything else is a harness error."""
    if os.environ.get("VERIF_INTERRUPT_FIRST") == "1":
        _interrupted_first(mod, case)
    try:
        return mod.check_case(case) or {}
    except (Violation, Skip, HarnessError):
        raise
    except (KeyboardInterrupt, SystemExit):
        raise
    except BaseException as e:  # noqa
        fs = innermost_batchie_frame(e.__traceback__)
        if fs is not None and not isinstance(e, (MemoryError,)):
            where = "%s:%s" % (os.path.basename(fs.filename), fs.name)
            raise Violation(
                "unexpected_exception:%s@%s" % (type(e).__name__, where),
                "repository code raised %r where the property requires a result" % (e,),
                detail=traceback.format_exc()[-2000:],
            )
        dump = ""
        try:  # keep the input that broke the harness, for debugging only (never a replay, never a violation)
            d = os.path.join(OUT, "replays", "harness")
            os.makedirs(d, exist_ok=True)
            dump = os.path.join(d, "%s-%d.json" % (getattr(mod, "ID", "x"), os.getpid()))
            with open(dump, "w") as f:
                json.dump({"property": getattr(mod, "ID", None), "case": sanitize(case), "error": repr(e)}, f)
        except Exception:
            dump = ""
        raise HarnessError("harness exception: %r (case kept in %s)\n%s" % (e, dump, traceback.format_exc()))


# ---------------------------------------------------------------- known findings


def load_known(prop):
    path = os.path.join(ROOT, "known_findings.json")
    if not os.path.exists(path):
        return []
    with open(path) as f:
        data = json.load(f)
    return [e for e in data.get("findings", []) if e.get("property") == prop and e.get("status") == "known"]


def match_known(mod, known, case, v):
    preds = getattr(mod, "KNOWN_PREDICATES", {})
    for e in known:
        if e.get("sub_check") != v.sub_check:
            continue
        p = preds.get(e["id"])
        if p is None or p(case, v):
            return e
    return None


# ---------------------------------------------------------------- one shard


class Stats:
    def __init__(self):
        self.evaluations = 0
        self.skipped = 0
        self.nontrivial = set()
        self.labels = collections.Counter()
        self.samples = []
        self._sample_classes = set()
        self.trivial_samples = []
        self.failures = []  # (len, case, sub_check, message, detail)
        self.known = collections.Counter()
        self.exhaustive_done = False
        self.timed_out = False
        self.extra = collections.Counter()

    def merge(self, o):
        self.evaluations += o.evaluations
        self.skipped += o.skipped
        self.nontrivial |= o.nontrivial
        self.labels.update(o.labels)
        self.samples = (self.samples + o.samples)[:4]
        self.trivial_samples = (self.trivial_samples + o.trivial_samples)[:1]
        self.failures += o.failures
        self.known.update(o.known)
        self.timed_out = self.timed_out or o.timed_out
        self.extra.update(o.extra)

    def record(self, case, info):
        self.evaluations += 1
        for lab in info.get("labels", ()):
            self.labels[lab] += 1
        for k, n in info.get("counts", {}).items():
            self.extra[k] += n
        if info.get("nontrivial"):
            key = info.get("key")
            self.nontrivial.add(case_hash(case) if key is None else case_hash(key))
            cls = "|".join(sorted(info.get("labels", ())))
            if len(self.samples) < 4 and cls not in self._sample_classes:
                s = canonical(case)
                if len(s) < 6000:
                    self._sample_classes.add(cls)
                    self.samples.append(json.loads(s))
        elif not self.trivial_samples:
            s = canonical(case)
            if len(s) < 3000:
                self.trivial_samples.append(json.loads(s))


def _evaluate(mod, case, stats, known):
    """Returns None if the case passed (or matched a known finding); raises Violation otherwise."""
    try:
        info = run_case(mod, case)
    except Skip:
        stats.skipped += 1
        return
    except Violation as v:
        e = match_known(mod, known, case, v)
        if e is not None:
            stats.known[e["id"]] += 1
            stats.evaluations += 1
            return
        s = canonical(case)
        stats.failures.append((len(s), json.loads(s), v.sub_check, v.message, v.detail))
        stats.failures.sort(key=lambda t: t[0])
        del stats.failures[5:]
        raise
    stats.record(case, info)


def run_shard(mod, tier, seed, shard, budget):
    import hypothesis
    from hypothesis import HealthCheck, Phase, given, settings

    stats = Stats()
    known = load_known(mod.ID)
    t0 = time.time()
    deadline = t0 + budget.get("max_s", 600)
    nshards = budget.get("shards", 1)

    # exhaustive part (enumerated by the same harness, split across shards)
    ex = getattr(mod, "exhaustive", None)
    stride = budget.get("exhaustive_stride", 1)
    if ex is not None:
        for i, case in enumerate(ex(tier)):
            if i % nshards != shard % nshards or (i // nshards) % stride:
                continue
            if stride > 1 and time.time() > deadline:
                break
            try:
                _evaluate(mod, case, stats, known)
            except Violation:
                return stats  # exhaustive enumeration: first failure is already a plain case
        stats.exhaustive_done = stride == 1

    strat = mod.strategy(tier) if getattr(mod, "strategy", None) else None
    n = budget.get("examples", 0)
    if strat is None or n <= 0:
        return stats

    state = {"first_fail": None}
    shrink_s = budget.get("shrink_s", 20)

    def body(case):
        now = time.time()
        if state["first_fail"] is None:
            if now > deadline:
                stats.timed_out = True
                return
        elif now - state["first_fail"] > shrink_s:
            return  # shrink budget spent: let the shrinker wind down
        try:
            _evaluate(mod, case, stats, known)
        except Violation:
            if state["first_fail"] is None:
                state["first_fail"] = time.time()
            raise

    test = given(strat)(body)
    test = hypothesis.seed(seed * 1000 + shard)(test)
    phases = [Phase.generate, Phase.shrink]
    test = settings(
        max_examples=n,
        database=None,
        deadline=None,
        report_multiple_bugs=False,
        derandomize=False,
        suppress_health_check=list(HealthCheck),
        phases=phases,
        print_blob=False,
        verbosity=hypothesis.Verbosity.quiet,
    )(test)
    try:
        test()
    except HarnessError:
        raise
    except BaseException as e:  # Violation, Flaky, ... : our own record decides
        if isinstance(e, (KeyboardInterrupt, SystemExit)):
            raise
        if not stats.failures:
            if isinstance(e, Violation):
                raise HarnessError("violation without recorded failure")
            raise HarnessError("hypothesis error: %r\n%s" % (e, traceback.format_exc()))
    return stats


def _shard_entry(args):
    modname, tier, seed, shard, budget = args
    from . import tree

    try:
        tree.activate()
        import importlib

        mod = importlib.import_module(modname)
        return ("ok", run_shard(mod, tier, seed, shard, budget))
    except HarnessError as e:
        return ("harness", str(e))
    except BaseException as e:  # noqa
        return ("harness", "%r\n%s" % (e, traceback.format_exc()))


# ---------------------------------------------------------------- driver


SWEEP_ENV_KEYS = ("PYTHONOPTIMIZE", "PYTHONHASHSEED", "PANDAS_COPY_ON_WRITE", "VERIF_LOGGING", "VERIF_WEAK_HASH", "OMP_NUM_THREADS", "VERIF_INTERRUPT_FIRST", "VERIF_FAST_CLOCK")


def sweep_env(seed):
    """the other process configuration every check is also run under: assert statements stripped (python -O), another
    string-hash seed (set / dict iteration order of strings), pandas' copy-on-write mode switched on by its documented
    environment variable, the package's logger at DEBUG level (into a sink) instead of silenced, and collision injection: the
    non-cryptographic hash functions keep three bits while the tree under test calls them (vf.tree._install_weak_hashes); and
    OMP_NUM_THREADS=4, the variable clusters set for every job (the BLAS behind numpy stays single-threaded through its own
    OPENBLAS_NUM_THREADS / MKL_NUM_THREADS, so numerics are unchanged: what changes is what code reading that variable does); and
    one case in three is first evaluated with an injected KeyboardInterrupt and then again normally (_interrupted_first); and the
    clock read by the tree under test jumps 61 s at every reading (vf.tree._install_fast_clock)"""
    return {"PYTHONOPTIMIZE": "1", "PYTHONHASHSEED": str(1 + (seed * 7919) % 4000), "PANDAS_COPY_ON_WRITE": "1", "VERIF_LOGGING": "debug", "VERIF_WEAK_HASH": "1", "OMP_NUM_THREADS": "4", "VERIF_INTERRUPT_FIRST": "1", "VERIF_FAST_CLOCK": "1"}


def sweep_budget(budget):
    return dict(budget, examples=max(10, budget.get("examples", 0) // 8), max_s=max(15, budget.get("max_s", 60) // 5), shards=1, exhaustive_stride=8)


def envsweep_child(mod, tier, seed, outfile):
    """(internal) one shard with a reduced budget in the interpreter configuration this process was started in"""
    import pickle

    stats = run_shard(mod, tier, seed, 90, sweep_budget(dict(mod.budgets(tier))))
    with open(outfile, "wb") as f:
        pickle.dump({"evaluations": stats.evaluations, "nontrivial": len(stats.nontrivial), "skipped": stats.skipped, "failures": stats.failures, "timed_out": stats.timed_out, "optimize": sys.flags.optimize, "hashseed": os.environ.get("PYTHONHASHSEED"), "interrupted_first_runs": INTERRUPT_COUNTS["interrupted_first_runs"]}, f)
    return 0


def run_envsweep(mod, tier, seed, budget):
    """run envsweep_child in a fresh interpreter under sweep_env(seed); returns its summary dict (or None if switched off)"""
    import pickle
    import subprocess
    import tempfile

    if os.environ.get("VERIF_NO_ENVSWEEP") or not getattr(mod, "ENV_SWEEP", True):
        return None
    env = dict(os.environ)
    env.update(sweep_env(seed))
    fd, out = tempfile.mkstemp(prefix="envsweep_", suffix=".pkl")
    os.close(fd)
    try:
        cmd = [sys.executable, os.path.join(ROOT, "run_check.py"), mod.ID, "--tier", tier, "--seed", str(seed), "--envsweep", out]
        try:
            p = subprocess.run(cmd, env=env, stdout=subprocess.PIPE, stderr=subprocess.PIPE, timeout=sweep_budget(budget)["max_s"] * 4 + 180)
        except subprocess.TimeoutExpired:
            return {"evaluations": 0, "nontrivial": 0, "skipped": 0, "failures": [], "timed_out": True, "inconclusive": "time limit of the configuration sweep reached"}
        if p.returncode != 0:
            raise HarnessError("interpreter-configuration sweep failed (rc %d): %s" % (p.returncode, p.stderr.decode(errors="replace")[-1500:]))
        with open(out, "rb") as f:
            r = pickle.load(f)
        if str(r.get("optimize")) != "1" or r.get("hashseed") != env["PYTHONHASHSEED"]:
            raise HarnessError("interpreter-configuration sweep ran under the wrong configuration: %r" % (r,))
        return r
    finally:
        try:
            os.remove(out)
        except OSError:
            pass


def write_replay(prop, case, sub_check, message, detail=None, env=None):
    d = os.path.join(OUT, "replays", "found")
    os.makedirs(d, exist_ok=True)
    path = os.path.join(d, "%s-%s.json" % (prop, case_hash(case)))
    with open(path, "w") as f:
        json.dump(
            dict({"property": prop, "sub_check": sub_check, "message": message, "detail": detail, "case": case}, **({"env": env} if env else {})),
            f,
            indent=1,
            allow_nan=True,
            default=_default,
        )
    return path


def committed_replays(prop):
    d = os.path.join(ROOT, "replays", prop)
    if not os.path.isdir(d):
        return []
    return [os.path.join(d, fn) for fn in sorted(os.listdir(d)) if fn.endswith(".json")]


def replay_file(mod, path, known, stats=None):
    with open(path) as f:
        data = json.load(f)
    case = data["case"]
    try:
        info = run_case(mod, case)
        if stats is not None:
            stats.record(case, info)
        return None
    except Skip:
        return None
    except Violation as v:
        e = match_known(mod, known, case, v)
        if e is not None:
            if stats is not None:
                stats.known[e["id"]] += 1
            return None
        return v


def main_run(mod, tier, seed, replay=None):
    from .evidence import write_evidence

    t0 = time.time()
    known = load_known(mod.ID)
    if replay:
        v = replay_file(mod, replay, known)
        conf = " (python -O, PYTHONHASHSEED=%s, PANDAS_COPY_ON_WRITE=%s)" % (os.environ.get("PYTHONHASHSEED"), os.environ.get("PANDAS_COPY_ON_WRITE")) if sys.flags.optimize else ""
        if v is None:
            print("replay passed%s: %s" % (conf, replay))
            return 0
        print("replay failed%s: %s" % (conf, v))
        print("VIOLATION property=%s replay=%s" % (mod.ID, os.path.abspath(replay)))
        return 1

    budget = dict(mod.budgets(tier))
    nshards = budget.get("shards", 1)
    total = Stats()
    replay_violation = None
    n_replays = 0
    for path in committed_replays(mod.ID):
        n_replays += 1
        v = replay_file(mod, path, known, total)
        if v is not None and replay_violation is None:
            replay_violation = (path, v)

    results = []
    if replay_violation is None:
        jobs = [(mod.__name__, tier, seed, s, budget) for s in range(nshards)]
        if nshards == 1:
            results = [("ok", run_shard(mod, tier, seed, 0, budget))]
        else:
            import multiprocessing

            ctx = multiprocessing.get_context("fork")
            with ctx.Pool(min(nshards, os.cpu_count() or 1)) as pool:
                results = pool.map(_shard_entry, jobs, chunksize=1)
    exhaustive = bool(results) and getattr(mod, "exhaustive", None) is not None
    for status, r in results:
        if status != "ok":
            raise HarnessError(r)
        total.merge(r)
        exhaustive = exhaustive and r.exhaustive_done

    # the same check, reduced budget, in a fresh interpreter with assert statements stripped and another string-hash seed
    sweep = None
    sweep_failure = None
    if replay_violation is None and not total.failures:
        sweep = run_envsweep(mod, tier, seed, budget)
        if sweep:
            total.extra["interpreter_config_sweep.evaluations"] += sweep["evaluations"]
            total.extra["interpreter_config_sweep.nontrivial"] += sweep["nontrivial"]
            total.extra["interpreter_config_sweep.interrupted_first_runs"] += sweep.get("interrupted_first_runs", 0)
            if sweep["failures"]:
                sweep_failure = sorted(sweep["failures"], key=lambda t: t[0])[0]

    violations = 0
    rc = 0
    lines = []
    for e in known:
        lines.append("KNOWN-FINDING: property=%s %s [%s; matched %d case(s) this run]" % (mod.ID, e["what"], e["id"], total.known.get(e["id"], 0)))
    if replay_violation is not None:
        path, v = replay_violation
        violations = 1
        rc = 1
        lines.append("regression replay failed: %s" % v)
        lines.append("VIOLATION property=%s replay=%s" % (mod.ID, os.path.abspath(path)))
    elif total.failures:
        total.failures.sort(key=lambda t: t[0])
        _, case, sub, msg, detail = total.failures[0]
        path = write_replay(mod.ID, case, sub, msg, detail)
        violations = len({f[2] for f in total.failures})
        rc = 1
        lines.append("violation [%s]: %s" % (sub, msg))
        lines.append("VIOLATION property=%s replay=%s" % (mod.ID, path))
    elif sweep_failure is not None:
        _, case, sub, msg, detail = sweep_failure
        env = sweep_env(seed)
        path = write_replay(mod.ID, case, sub, msg, detail, env=env)
        violations = 1
        rc = 1
        lines.append("violation [%s] (under python -O, PYTHONHASHSEED=%s, PANDAS_COPY_ON_WRITE=1, DEBUG logging, weak hashes, OMP_NUM_THREADS=4, interrupted first evaluations, fast clock): %s" % (sub, env["PYTHONHASHSEED"], msg))
        lines.append("VIOLATION property=%s replay=%s" % (mod.ID, path))
    wall = time.time() - t0
    write_evidence(mod, tier, seed, total, wall, violations, exhaustive, n_replays, budget)
    print(
        "%s tier=%s seed=%d evaluations=%d nontrivial=%d skipped=%d known=%d replays=%d wall=%.1fs%s"
        % (
            mod.ID,
            tier,
            seed,
            total.evaluations,
            len(total.nontrivial),
            total.skipped,
            sum(total.known.values()),
            n_replays,
            wall,
            " (generation stopped by soft time budget)" if total.timed_out else "",
        )
    )
    for l in lines:
        print(l)
    sys.stdout.flush()
    return rc
