"""Shared pieces for the retrospective-preparation properties (C11, C13, C18): operator registry, row multisets."""
import collections

import numpy as np
from hypothesis import strategies as st

from . import strategies as S


def row_key(s, i, with_plate=False, with_mask=False):
    k = (
        str(s.sample_names[i]),
        tuple(str(x) for x in s.treatment_names[i]),
        tuple(float(x).hex() for x in s.treatment_doses[i]),
        float(s.observations[i]).hex(),
    )
    if with_plate:
        k += (str(s.plate_names[i]),)
    if with_mask:
        k += (bool(s.observation_mask[i]),)
    return k


def multiset(s, rows=None, **kw):
    idx = range(s.size) if rows is None else rows
    return collections.Counter(row_key(s, i, **kw) for i in idx)


def snapshot(s):
    return {
        "tn": np.array(s.treatment_names, copy=True),
        "td": np.array(s.treatment_doses, copy=True),
        "sn": np.array(s.sample_names, copy=True),
        "pn": np.array(s.plate_names, copy=True),
        "ob": np.array(s.observations, copy=True),
        "mk": np.array(s.observation_mask, copy=True),
        "pid": np.array(s.plate_ids, copy=True),
        "sid": np.array(s.sample_ids, copy=True),
        "tid": np.array(s.treatment_ids, copy=True),
    }


def unchanged(s, snap):
    return (
        S.same_str(s.treatment_names, snap["tn"])
        and S.same_bits(s.treatment_doses, snap["td"])
        and S.same_str(s.sample_names, snap["sn"])
        and S.same_str(s.plate_names, snap["pn"])
        and S.same_bits(s.observations, snap["ob"])
        and np.array_equal(np.asarray(s.observation_mask), snap["mk"])
        and np.array_equal(np.asarray(s.plate_ids), snap["pid"])
        and np.array_equal(np.asarray(s.sample_ids), snap["sid"])
        and np.array_equal(np.asarray(s.treatment_ids), snap["tid"])
    )


GENERATORS = ["PlatePermutation", "PlatePermutationForce", "SampleSegregating", "Pairwise"]
SMOOTHERS = ["MergeMin", "MergeTopBottom", "FixedSize", "OptimalSize", "NPlatePerCellLine", "BatchieEnsemble"]
NEEDS_SINGLE_SAMPLE_PLATES = {"MergeMin", "MergeTopBottom", "NPlatePerCellLine", "BatchieEnsemble"}


@st.composite
def operator(draw, names=None):
    name = draw(st.sampled_from(names or (GENERATORS + SMOOTHERS)))
    p = {"name": name}
    if name == "PlatePermutationForce":
        p["force"] = draw(st.lists(st.integers(0, 6), min_size=1, max_size=2))
    elif name == "SampleSegregating":
        p["max_plate_size"] = draw(st.integers(1, 6))
    elif name == "Pairwise":
        p["subset_size"] = draw(st.sampled_from([1, 1, 1, 2, 3]))
        p["anchor_size"] = draw(st.sampled_from([0, 0, 1, 2]))
    elif name == "MergeMin":
        p["min_size"] = draw(st.integers(1, 8))
    elif name == "MergeTopBottom":
        p["n_iterations"] = draw(st.integers(0, 3))
    elif name == "FixedSize":
        p["plate_size"] = draw(st.integers(1, 5))
    elif name == "NPlatePerCellLine":
        p["k"] = draw(st.integers(1, 4))
    elif name == "BatchieEnsemble":
        p["min_size"] = draw(st.integers(1, 6))
        p["n_iterations"] = draw(st.integers(0, 2))
        p["k"] = draw(st.integers(1, 3))
    return p


def build_operator(p, plate_names=None):
    from batchie import retrospective as R

    n = p["name"]
    if n == "PlatePermutation":
        return R.PlatePermutationPlateGenerator()
    if n == "PlatePermutationForce":
        pl = sorted(set(plate_names or []))
        force = [pl[i % len(pl)] for i in p["force"]] if pl else ["nope"]
        return R.PlatePermutationPlateGenerator(force_include_plate_names=force)
    if n == "SampleSegregating":
        return R.SampleSegregatingPermutationPlateGenerator(max_plate_size=p["max_plate_size"])
    if n == "Pairwise":
        return R.PairwisePlateGenerator(subset_size=p["subset_size"], anchor_size=p["anchor_size"])
    if n == "MergeMin":
        return R.MergeMinPlateSmoother(min_size=p["min_size"])
    if n == "MergeTopBottom":
        return R.MergeTopBottomPlateSmoother(n_iterations=p["n_iterations"])
    if n == "FixedSize":
        return R.FixedSizeSmoother(plate_size=p["plate_size"])
    if n == "OptimalSize":
        return R.OptimalSizeSmoother()
    if n == "NPlatePerCellLine":
        return R.NPlatePerCellLineSmoother(min_n_cell_line_plates=p["k"])
    if n == "BatchieEnsemble":
        return R.BatchieEnsemblePlateSmoother(min_size=p["min_size"], n_iterations=p["n_iterations"], min_n_cell_line_plates=p["k"])
    raise KeyError(n)


def _decoys(p, plate_names):
    """other, differently configured objects of the same (and of a related) class that stay alive while the object under test is
    used: an object's settings are its own, whatever else has been constructed in the process"""
    out = []
    q = dict(p)
    for k_, v_ in p.items():
        if isinstance(v_, int) and not isinstance(v_, bool):
            q[k_] = v_ + 5 if k_ != "n_iterations" else (v_ + 2)
    if q != p:
        try:
            out.append(build_operator(q, plate_names))
        except Exception:
            pass
    if p["name"] in ("MergeMin", "MergeTopBottom", "NPlatePerCellLine"):
        try:
            out.append(build_operator({"name": "BatchieEnsemble", "min_size": 97, "n_iterations": 3, "k": 9}, plate_names))
        except Exception:
            pass
    return out


def apply_operator(p, screen, rng):
    op = build_operator(p, [str(x) for x in screen.plate_names])
    alive = _decoys(p, [str(x) for x in screen.plate_names])  # noqa: F841  (kept alive on purpose until the call returns)
    if p["name"] in GENERATORS:
        return op.generate_plates(screen, rng)
    return op.smooth_plates(screen, rng)


@st.composite
def retro_screen(draw, single_sample_plates=None, n_rows=(1, 18), obs=None, n_samples=(1, 5), n_plates=(1, 4), **kw):
    """Screen with duplicate conditions, single-agent rows, observed and unobserved plates."""
    ssp = draw(st.booleans()) if single_sample_plates is None else single_sample_plates
    sc = draw(
        S.simple_screen(
            n_samples=n_samples,
            n_treat=(1, 4),
            n_rows=n_rows,
            n_plates=n_plates,
            obs=obs or st.one_of(st.sampled_from([0.5, 0.5, 0.25]), st.floats(min_value=0.0, max_value=1.0)),
            single_sample_plates=ssp,
            **kw
        )
    )
    sc["ssp"] = ssp
    return sc


@st.composite
def pairwise_screen(draw):
    """Layout on which PairwisePlateGenerator returns: every sample has full combinations among its unobserved
    experiments; single-agent rows and vehicle-only (control, control) rows are mixed in."""
    ns = draw(st.integers(1, 3))
    ar = draw(st.sampled_from([2, 2, 3]))  # screens with three treatment slots have partial combinations (d, e, control)
    nt = draw(st.integers(ar, ar + 2))
    val = st.one_of(st.sampled_from([0.5, 0.98, 1.0]), st.floats(min_value=0.0, max_value=1.0))
    rows = []

    # sample names: plain, or differing only in letter case / surrounding blanks (distinct samples all the same)
    look_alike = draw(st.sampled_from([None, None, ["hel", "HEL", "hel ", " Hel"]]))

    def row(s, ts, p):
        rows.append({"s": look_alike[s] if look_alike else "s%d" % s, "p": p, "t": ["ctl" if t == -1 else S.treat_name(t)[0] for t in ts], "d": [0.0 if t == -1 else S.treat_name(t)[1] for t in ts], "o": draw(val)})

    for s in range(ns):
        for _ in range(draw(st.integers(1, 4))):
            a = draw(st.integers(0, nt - 1))
            ts = [a]
            while len(ts) < ar:
                ts.append((ts[-1] + 1 + draw(st.integers(0, nt - ar))) % nt)
            row(s, ts, "u%d" % draw(st.integers(0, 2)))
        for _ in range(draw(st.integers(0, 3))):
            kind = draw(st.sampled_from(["single0", "single1", "vehicle", "vehicle"] + (["partial", "partial"] if ar == 3 else [])))
            t = draw(st.integers(0, nt - 1))
            if kind == "partial":
                ts = [t, (t + 1) % nt, -1]
                k_ = draw(st.integers(0, 2))
                ts = ts[k_:] + ts[:k_]
            elif kind == "vehicle":
                ts = [-1] * ar
            else:
                ts = [-1] * ar
                ts[(0 if kind == "single0" else 1) if ar == 2 else draw(st.integers(0, 2))] = t
            row(s, ts, "u%d" % draw(st.integers(0, 2)))
        if draw(st.booleans()):
            row(s, [draw(st.integers(-1, nt - 1)) for _ in range(ar)], "obs")
    observed = ["obs"] if any(r["p"] == "obs" for r in rows) else []
    return {"arity": ar, "control": "ctl", "rows": rows, "observed": observed, "ns": ns, "nt": nt, "ssp": False}
