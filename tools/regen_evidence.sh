#!/bin/sh
# tools/regen_evidence.sh [parallel=4] [seed=1]: re-run every check's quick tier from /verif against /repo and write evidence/<id>.json
# (run on an otherwise idle machine: a loaded one makes the checks hit their soft time budget and generate fewer cases)
par=${1:-4}; seed=${2:-1}
cd "$(dirname "$0")/.."
for i in 01 02 03 04 05 06 07 08 09 10 11 12 13 14 15 16 17 18 19 20; do echo C$i; done | xargs -P $par -I{} sh -c "VERIF_SEED=$seed /venv/bin/python run_check.py {} --tier quick 2>&1 | grep -E '^C[0-9]+ tier|VIOLATION|HARNESS|KNOWN'"
