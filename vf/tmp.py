"""Per-process scratch directory, removed at exit (also in forked shard workers)."""
import atexit
import os
import shutil
import tempfile

_dirs = {}
_counter = [0]


def _base():
    """scratch lives on a RAM file system when there is one with room (directory-heavy checks such as C19 are several times
    faster there); VERIF_TMP overrides; otherwise the platform default"""
    b = os.environ.get("VERIF_TMP")
    if b:
        return b
    shm = "/dev/shm"
    try:
        if os.path.isdir(shm) and os.access(shm, os.W_OK | os.X_OK):
            st = os.statvfs(shm)
            if st.f_bavail * st.f_frsize > 2 * 1024**3:
                return shm
    except OSError:
        pass
    return None


def tmpdir():
    pid = os.getpid()
    d = _dirs.get(pid)
    if d is None:
        d = tempfile.mkdtemp(prefix="batchie_verif_%d_" % pid, dir=_base())
        _dirs[pid] = d
        atexit.register(shutil.rmtree, d, True)
        try:
            import multiprocessing.util as mu

            mu.Finalize(None, shutil.rmtree, args=(d, True), exitpriority=0)
        except Exception:
            pass
    return d


ODD_DIRS = ["rep[2]", "two words", "x*y", "q?", "\u00fcn\u00ef", "[ab]", "{a,b}", "100%", "-dash", "dot.d"]


def through_symlink(name="f.h5"):
    """a fresh path spelled <dir>/inputs_k/../<name> where inputs_k is a symbolic link to a directory two levels further down: the
    operating system resolves the link before the "..", a purely lexical normalisation (os.path.abspath) does not - the same spelling
    must name the same file for the writer and for the reader"""
    _counter[0] += 1
    d = tmpdir()
    real = os.path.join(d, "store_%d" % _counter[0], "run")
    os.makedirs(real, exist_ok=True)
    link = os.path.join(d, "inputs_%d" % _counter[0])
    os.symlink(real, link)
    return os.path.join(link, "..", name)


def fresh(name="f.h5", odd=None, own_dir=False):
    """a fresh scratch path; with odd=<int> the file lies in a sub-directory whose name holds glob characters, spaces or
    non-ASCII letters (all legal in file names: code that globs, splits or re-encodes a path shows here); with own_dir the file
    is called exactly `name` and lies in a directory of its own (run_a/thetas.h5, run_b/thetas.h5: equal base names)"""
    _counter[0] += 1
    d = tmpdir()
    if odd is not None:
        d = os.path.join(d, ODD_DIRS[int(odd) % len(ODD_DIRS)])
        os.makedirs(d, exist_ok=True)
    if own_dir:
        d = os.path.join(d, "run_%d" % _counter[0])
        os.makedirs(d, exist_ok=True)
        return os.path.join(d, name)
    return os.path.join(d, "%d_%s" % (_counter[0], name))


def cleanup(*paths):
    for p in paths:
        try:
            if os.path.isdir(p):
                shutil.rmtree(p, True)
            else:
                os.remove(p)
        except OSError:
            pass


def neighbours(path):
    """other files in the directory of `path` whose names are related to it the way working files usually are (foo.tmp.h5, foo.h5.tmp,
    foo.h5.partial, foo.h5~, .foo.h5.swp, foo.bak.h5, foo.h5.lock): -> {file: bytes}.  Writing `path` is no business of theirs."""
    d, name = os.path.split(path)
    stem, ext = os.path.splitext(name)
    out = {}
    for i, n in enumerate([stem + ".tmp" + ext, name + ".tmp", name + ".partial", name + "~", "." + name + ".swp", stem + ".bak" + ext, name + ".lock", stem + "_tmp" + ext, "tmp_" + name]):
        f = os.path.join(d, n)
        if os.path.exists(f):
            continue
        data = ("neighbour %d of %s" % (i, name)).encode() * 3
        with open(f, "wb") as fh:
            fh.write(data)
        out[f] = data
    return out


def changed_neighbours(files):
    """the neighbours that no longer hold what they held; removes them all"""
    bad = []
    for f, data in files.items():
        try:
            with open(f, "rb") as fh:
                if fh.read() != data:
                    bad.append(os.path.basename(f) + " (changed)")
        except OSError:
            bad.append(os.path.basename(f) + " (gone)")
        cleanup(f)
    return bad
