#!/venv/bin/python
"""Regenerate MANIFEST.json from the check modules (LEVEL, LEVEL_TEXT, LEVEL_NOTE, TECHNIQUE, DESIGN_REF)."""
import glob
import importlib
import json
import os
import sys

ROOT = os.path.dirname(os.path.dirname(os.path.abspath(__file__)))
sys.path.insert(0, ROOT)
os.chdir(ROOT)
from vf import tree  # noqa

tree.activate()

props = [json.loads(l) for l in open("properties.jsonl")]
checks = []
na = []
for p in props:
    pid = p["id"]
    m = glob.glob("checks/%s_*.py" % pid.lower())
    if not m:
        na.append({"property_id": pid, "reason": "check not built yet (planned in DESIGN.md section 2); no claim is made for it until it is"})
        continue
    mod = importlib.import_module("checks." + os.path.basename(m[0])[:-3])
    checks.append(
        {
            "property_id": pid,
            "quick_cmd": "/venv/bin/python run_check.py %s --tier quick" % pid,
            "thorough_cmd": "/venv/bin/python run_check.py %s --tier thorough" % pid,
            "evidence_file": "/verif/evidence/%s.json" % pid,
            "replay_cmd_template": "/venv/bin/python run_check.py %s --replay {path}" % pid,
            "engine": "pbt",
            "level_claimed": {
                "category": mod.LEVEL,
                "text": getattr(mod, "LEVEL_TEXT", "Generated-input search (Hypothesis, plus exhaustive enumeration of the small finite sub-domains) against an independent oracle; assurance is bounded by the cases explored, counted in the evidence file."),
                "design_ref": "DESIGN.md section 2, %s" % pid,
            },
            "level_note": getattr(mod, "LEVEL_NOTE", "; ".join(mod.ASSUMPTIONS)),
            "technique": mod.TECHNIQUE,
        }
    )
manifest = {
    "version": 1,
    "setup_cmd": "sh ./setup.sh",
    "hooks": {
        "guard": "BATCHIE_VERIF",
        "enable": "checks set BATCHIE_VERIF=1 themselves; no source hooks were needed (draws are observed by patching numpy/module attributes from the harness), so there are no hook commits",
        "baseline_off_cmd": "cd /repo && env -u BATCHIE_VERIF /venv/bin/python -m pytest -ra -q -p no:cacheprovider --timeout=900 --continue-on-collection-errors",
        "source_commits": [],
        "add_only": True,
    },
    "engines": [
        {
            "name": "pbt",
            "path": "/verif/run_check.py",
            "serves_properties": [c["property_id"] for c in checks],
            "kind_free_text": "Hypothesis 6.168 generated-input search (seeded from VERIF_SEED, database=None) + exhaustive enumeration of small finite domains, explicit oracles per property, JSON replay files that bypass the library",
        }
    ],
    "checks": checks,
    "not_applicable": na,
    "notes": "All checks import batchie from /repo/src (working tree), never from an installed copy. Exit 2 = harness error. known_findings.json lists recorded/fixed findings. mutants/run.py and seeded/ hold the sensitivity experiments.",
}
with open("MANIFEST.json", "w") as f:
    json.dump(manifest, f, indent=1)
print("MANIFEST: %d checks, %d not_applicable" % (len(checks), len(na)))
