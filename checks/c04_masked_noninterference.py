"""C04 - masked observations never influence training, scoring or selection."""
import numpy as np
from hypothesis import strategies as st
from scipy.special import logit

from vf import strategies as S
from vf import tmp
from vf.cli import run_cli
from vf.engine import Violation, require
from vf.randomctl import controlled
from vf.tree import attach

ID = "C04"
LEVEL = "exploration"
TECHNIQUE = "metamorphic non-interference: Hypothesis-generated partially observed screens and twins that differ only behind the mask are pushed through train -> distances -> scores -> selection (API and CLI) and compared bitwise; training-set and refusal oracles per model"
RULE = (
    "(single-agent viabilities of the interaction model are exactly 0 or 1 in a third of the rows; in half of the library-path cases the twin comparison is repeated with 1..3 non-default constructor options of the model) "
    "partially observed arity-2 screens (6..20 rows, >=1 observed and 1..4 unobserved plates whose names sort before or after the observed ones, single-agent rows present; for the interaction model the observed part "
    "holds a single-agent row for every (sample, treatment) of the screen); twin = same screen with the masked values replaced by values from {0,1,-3.5,NaN,1e300} U floats; "
    "model in {SparseDrugCombo, SparseDrugComboInteraction}, D 1..3, burn-in 0..2, 3..5 samples, 1..2 chains, n_chunks 1..4 for distances and scores, batch of 0..2 "
    "selected plates, scorer in {GaussianDBAL, Size, Random}; 1 in 5 cases through the CLIs on files. Non-trivial = twin differs in >=1 masked value and >=1 plate is scored. "
    "distinct = distinct case JSON."
    ' Also: refusal of plates holding observed and masked rows (partial set_observed, mixed merge).'
    ' Also: production-size refusals (70000 .. 524298 observations, one NaN / negative value near the end): nothing kept, the repaired batch counts once.'
    ' Also: first batch / sweep / second batch / sweep on one model (rows and intercept).'
    ' Interaction model: a layout in which the only single-agent measurement of one (sample, treatment) is masked (twins must be refused or run alike).'
)
ASSUMPTIONS = [
    "both runs execute under 'controlled randomness' (global numpy state seeded, unseeded default_rng() made a function of the seed) so that non-interference is decided independently of C18",
    "training arrays are read from the wrapped implementation by name (y, cline, dd1, dd2); a rename is a harness error",
    "for SparseDrugCombo the transform logit(clip(float32(obs), .01, .99)) named in the property's anchor is asserted exactly; for the interaction model only which rows are used (observed full combinations, each once) and its single-effect table are asserted, the value transform is not",
    "interaction-model observations are drawn in (0,1)",
]


def budgets(tier):
    if tier == "quick":
        return {"examples": 220, "max_s": 80, "shrink_s": 25, "shards": 1}
    return {"examples": 600, "max_s": 900, "shrink_s": 120, "shards": 16}


_replacement = st.one_of(st.sampled_from([0.0, 1.0, -3.5, float("nan"), 1e300, 0.5]), st.floats(allow_nan=False, allow_infinity=False, width=64))


@st.composite
def _case(draw):
    model = draw(st.sampled_from(["SparseDrugCombo", "SparseDrugCombo", "SparseDrugComboInteraction"]))
    ns = draw(st.integers(1, 3))
    nt = draw(st.integers(2, 4))
    n_un = draw(st.sampled_from([1, 1, 2, 3, 4]))
    # the masked plates' names sort before or after the observed ones (plate ids follow the sorted names)
    un = "a_un%d" if draw(st.booleans()) else "un%d"
    val = st.floats(min_value=0.05, max_value=0.95)
    if model == "SparseDrugCombo":  # values the documented clip acts on
        val = st.one_of(val, val, st.sampled_from([0.0, 1.0, 1.2, 0.005, 0.995]))
    rows = []
    # observed plate(s): single-agent coverage first (needed by the interaction model, harmless for the other)
    for s in range(ns):
        for t in range(nt):
            if model == "SparseDrugComboInteraction" or draw(st.booleans()):
                col = draw(st.integers(0, 1))
                ts = [t, -1] if col == 0 else [-1, t]
                # (interaction model: a fully lethal / ineffective single agent - exactly 0 or 1 - is a legal viability)
                v_single = draw(st.one_of(val, val, st.sampled_from([0.0, 0.0, 1.0]))) if model == "SparseDrugComboInteraction" else draw(val)
                rows.append((s, ts, "obs%d" % draw(st.integers(0, 1)), v_single))
    n_more = draw(st.integers(3, 10))
    for _ in range(n_more):
        s = draw(st.integers(0, ns - 1))
        a = draw(st.integers(0, nt - 1))
        b = draw(st.integers(-1, nt - 1))
        if b == a:
            b = (a + 1) % nt
        if draw(st.booleans()):
            a, b = b, a
        plate = draw(st.sampled_from(["obs0", "obs1"] + [un % i for i in range(n_un)] * 2))
        rows.append((s, [a, b], plate, draw(val)))
    # make sure every unobserved plate and >= 1 observed plate exist
    for i in range(n_un):
        s = draw(st.integers(0, ns - 1))
        a = draw(st.integers(0, nt - 1))
        rows.append((s, [a, (a + 1) % nt], un % i, draw(val)))
    if not any(r[2].startswith("obs") for r in rows):
        rows.append((0, [0, 1 % nt if nt > 1 else -1], "obs0", draw(val)))
    if draw(st.integers(0, 4)) == 0:
        rows.append((0, [-1, -1], "obs0", draw(val)))  # a (ctl, ctl) row among the observed ones
    jrows = []
    for s, ts, p, o in rows:
        jrows.append({"s": "s%d" % s, "p": p, "t": ["ctl" if t == -1 else S.treat_name(t)[0] for t in ts], "d": [0.0 if t == -1 else S.treat_name(t)[1] for t in ts], "o": o})
    observed = sorted({r["p"] for r in jrows if r["p"].startswith("obs")})
    masked_idx = [i for i, r in enumerate(jrows) if not r["p"].startswith("obs")]
    twin_vals = {str(i): draw(_replacement) for i in masked_idx if draw(st.integers(0, 3)) != 0}
    scorer = draw(st.sampled_from(["GaussianDBALScorer", "GaussianDBALScorer", "SizeScorer", "RandomScorer"]))
    n_chains = draw(st.integers(1, 2))
    return {
        "screen": {"arity": 2, "control": "ctl", "rows": jrows, "observed": observed, "ns": ns, "nt": nt},
        "twin": twin_vals,
        "model": model,
        "D": draw(st.integers(1, 3)),
        "burnin": draw(st.integers(0, 2)),
        "n_samples": draw(st.integers(3, 5)),
        "n_chains": n_chains,
        "dist_chunks": draw(st.integers(1, 4)),
        "score_chunks": draw(st.integers(1, 4)),
        "batch_picks": draw(st.lists(st.integers(0, 10), max_size=2)),
        "scorer": scorer,
        "seed": draw(st.integers(0, 2**31 - 1)),
        "cli": draw(st.integers(0, 4)) == 0,
        # non-default constructor options of the model (a second twin comparison is run with them)
        "model_opts": draw(
            st.one_of(
                st.none(),
                st.sampled_from([{"predict_interactions": True}, {"predict_interactions": True, "interaction_log_transform": False}, {"intercept": False}, {"local_shrinkage": False}] if model == "SparseDrugCombo" else [{"local_shrinkage": False}, {"mult_gamma_proc": False}]),
                st.dictionaries(
                    st.sampled_from(["predict_interactions", "interaction_log_transform", "fake_intercept", "individual_eff", "mult_gamma_proc", "local_shrinkage", "intercept"] if model == "SparseDrugCombo" else ["mult_gamma_proc", "local_shrinkage"]),
                    st.booleans(),
                    min_size=1,
                    max_size=3,
                ),
            )
        ),
    }


def strategy(tier):
    return _case()


def _model_cls(name):
    if name == "SparseDrugCombo":
        from batchie.models.sparse_combo import SparseDrugCombo

        return SparseDrugCombo
    from batchie.models.sparse_combo_interaction import SparseDrugComboInteraction

    return SparseDrugComboInteraction


def _training_arrays(model):
    wm = attach(model, "wrapped_model")
    y = np.array(attach(wm, "y"), dtype=np.float64)
    return y, np.array(attach(wm, "cline"), dtype=int), np.array(attach(wm, "dd1"), dtype=int), np.array(attach(wm, "dd2"), dtype=int)


def _theta_items(theta):
    d = dict(theta.private_parameters_dict())
    d.update(theta.shared_parameters_dict())
    return d


def _run_pipeline(case, screen, paths):
    """returns a dict of everything downstream of the screen"""
    from batchie import sampling
    from batchie.core import ThetaHolder
    from batchie.data import ExperimentSpace, Screen
    from batchie.distance.mse import MSEDistance
    from batchie.distance_calculation import ChunkedDistanceMatrix, calculate_pairwise_distance_matrix_on_predictions
    from batchie.scoring.gaussian_dbal import GaussianDBALScorer
    from batchie.scoring.main import ChunkedScoresHolder, score_chunk, select_next_plate
    from batchie.scoring.rand import RandomScorer
    from batchie.scoring.size import SizeScorer

    out = {}
    cls = _model_cls(case["model"])
    unobs = sorted(int(p.plate_id) for p in screen.plates if not bool(np.all(p.observation_mask)))
    batch = []
    for b in case["batch_picks"]:
        if len(unobs) - len(set(batch)) > 1:
            cand = [u for u in unobs if u not in batch]
            batch.append(cand[b % len(cand)])
    out["batch"] = batch
    seed = case["seed"]
    if not case["cli"]:
        holders = []
        for chain in range(case["n_chains"]):
            model = cls(experiment_space=ExperimentSpace.from_screen(screen), n_embedding_dimensions=case["D"], **case.get("opts", {}))
            observed = screen.subset_observed()
            model.add_observations(observed)
            if chain == 0:
                out["training"] = _training_arrays(model)
                out["n_obs"] = model.n_obs()
                out["table"] = dict(getattr(model, "single_effect_lookup", {}) or {})
            with controlled(seed + chain):
                h = sampling.sample(model=model, results=ThetaHolder(n_thetas=case["n_samples"]), seed=seed, n_chains=case["n_chains"], chain_index=chain, n_burnin=case["burnin"], thin=1)
            holders.append(h)
        thetas = ThetaHolder.concat(holders)
        chunks = [calculate_pairwise_distance_matrix_on_predictions(thetas=thetas, distance_metric=MSEDistance(), data=screen, chunk_index=c, n_chunks=case["dist_chunks"]) for c in range(case["dist_chunks"])]
        dm = ChunkedDistanceMatrix.concat(chunks)
        scorer = {"GaussianDBALScorer": GaussianDBALScorer, "SizeScorer": SizeScorer, "RandomScorer": RandomScorer}[case["scorer"]]()
        sh = []
        for c in range(case["score_chunks"]):
            with controlled(seed + 100 + c):
                sh.append(score_chunk(scorer=scorer, thetas=thetas, screen=screen, distance_matrix=dm, rng=np.random.default_rng(seed + c), n_chunks=case["score_chunks"], chunk_index=c, batch_plate_ids=list(batch)))
        scores = ChunkedScoresHolder.concat(sh)
        chosen = select_next_plate(scores=scores, screen=screen, policy=None, batch_plate_ids=list(batch), rng=np.random.default_rng(seed))
    else:
        sfile = tmp.fresh("screen.h5")
        paths.append(sfile)
        screen.save_h5(sfile)
        tfiles = []
        for chain in range(case["n_chains"]):
            t = tmp.fresh("thetas_%d.h5" % chain)
            paths.append(t)
            with controlled(seed + chain):
                run_cli("train_model", ["--data", sfile, "--model", case["model"], "--model-param", "n_embedding_dimensions=%d" % case["D"], "--n-samples", case["n_samples"], "--n-burnin", case["burnin"], "--thin", 1, "--n-chains", case["n_chains"], "--chain-index", chain, "--seed", seed, "--output", t])
            tfiles.append(t)
        dfiles = []
        for c in range(case["dist_chunks"]):
            d = tmp.fresh("dist_%d.h5" % c)
            paths.append(d)
            run_cli("calculate_distance_matrix", ["--data", sfile, "--thetas"] + tfiles + ["--distance-metric", "MSEDistance", "--n-chunks", case["dist_chunks"], "--chunk-index", c, "--output", d])
            dfiles.append(d)
        cfiles = []
        for c in range(case["score_chunks"]):
            o = tmp.fresh("scores_%d.h5" % c)
            paths.append(o)
            argv = ["--data", sfile, "--thetas"] + tfiles + ["--distance-matrix"] + dfiles + ["--n-chunks", case["score_chunks"], "--chunk-index", c, "--scorer", case["scorer"], "--seed", seed, "--output", o]
            if batch:
                argv += ["--batch-plate-ids"] + list(batch)
            with controlled(seed + 100 + c):
                run_cli("calculate_scores", argv)
            cfiles.append(o)
        sel = tmp.fresh("selected_plate")
        paths.append(sel)
        argv = ["--data", sfile, "--scores"] + cfiles + ["--seed", seed, "--output", sel]
        if batch:
            argv += ["--batch-plate-id"] + list(batch)
        run_cli("select_next_plate", argv)
        thetas = ThetaHolder.concat([ThetaHolder.load_h5(t) for t in tfiles])
        dm = ChunkedDistanceMatrix.concat([ChunkedDistanceMatrix.load(d) for d in dfiles])
        scores = ChunkedScoresHolder.concat([ChunkedScoresHolder.load_h5(c) for c in cfiles])
        txt = open(sel).read().strip()
        chosen = None if txt == "-1" else int(txt)
    out["thetas"] = [_theta_items(t) for t in thetas.thetas]
    out["dense"] = dm.to_dense()
    k = int(scores.current_index)
    out["scores"] = sorted((int(p), float(s)) for p, s in zip(scores.plate_ids[:k], scores.scores[:k]))
    out["chosen"] = None if chosen is None else (int(chosen.plate_id) if hasattr(chosen, "plate_id") else int(chosen))
    return out


def _same(a, b):
    if isinstance(a, dict):
        return isinstance(b, dict) and sorted(map(str, a)) == sorted(map(str, b)) and all(_same(a[k], b[k]) for k in a)
    if isinstance(a, (list, tuple)):
        return isinstance(b, (list, tuple)) and len(a) == len(b) and all(_same(x, y) for x, y in zip(a, b))
    if isinstance(a, np.ndarray) or isinstance(b, np.ndarray):
        a, b = np.asarray(a), np.asarray(b)
        if a.shape != b.shape:
            return False
        if a.dtype.kind == "f" or b.dtype.kind == "f":
            return S.same_bits(a, b)
        return bool(np.array_equal(a, b))
    if isinstance(a, float) or isinstance(b, float):
        return S.same_bits(np.array([a]), np.array([b]))
    return a == b


def exhaustive(tier):
    # a production-size batch with one unusable observation far into it: refused as a whole, and the repaired batch is then used
    # exactly once
    for n, bad_at, bad, model in [(270000, 265000, float("nan"), "SparseDrugCombo"), (70000, 69999, -0.2, "SparseDrugCombo")] + ([(2**19 + 10, 2**19 + 5, -0.2, "SparseDrugCombo"), (140000, 131073, float("nan"), "SparseDrugCombo"), (30000, 29000, float("nan"), "SparseDrugComboInteraction")] if tier != "quick" else []):
        yield {"kind": "big_refusal", "n": n, "bad_at": bad_at, "bad": bad, "model": model}


def _check_big_refusal(case):
    from batchie.data import ExperimentSpace, Screen
    from batchie.models.sparse_combo import SparseDrugCombo
    from batchie.models.sparse_combo_interaction import SparseDrugComboInteraction

    n = case["n"]
    i = np.arange(n)
    nt = 9
    a, b = i % nt, (i + 1 + i // nt % (nt - 1)) % nt
    single = i % 11 == 0
    names = np.array(["t%d" % k for k in range(nt)] + ["ctl"])
    tn = np.stack([names[a], np.where(single, "ctl", names[b])], axis=1)
    td = np.stack([np.ones(n), np.where(single, 0.0, 1.0)], axis=1)
    good = 0.1 + 0.8 * ((i * 7919) % 1000) / 1000.0
    bad = good.copy()
    bad[case["bad_at"]] = case["bad"]
    mk = lambda obs: Screen(treatment_names=tn, treatment_doses=td, observations=obs, observation_mask=np.ones(n, dtype=bool), sample_names=np.array(["s%d" % k for k in range(4)])[i % 4], plate_names=np.array(["p%d" % k for k in range(6)])[i % 6], control_treatment_name="ctl")
    s_bad, s_good = mk(bad), mk(good)
    cls = SparseDrugCombo if case["model"] == "SparseDrugCombo" else SparseDrugComboInteraction
    model = cls(experiment_space=ExperimentSpace.from_screen(s_good), n_embedding_dimensions=1)
    try:
        model.add_observations(s_bad)
    except ValueError:
        pass
    else:
        raise Violation("big_refusal.accepted", "%s accepted %d observations although observation %d is %r" % (case["model"], n, case["bad_at"], case["bad"]))
    require(model.n_obs() == 0, "big_refusal.state", lambda: "%s refused a batch of %d observations (observation %d is %r) but holds %d of them afterwards" % (case["model"], n, case["bad_at"], case["bad"], model.n_obs()))
    model.add_observations(s_good)
    fresh = cls(experiment_space=ExperimentSpace.from_screen(s_good), n_embedding_dimensions=1)
    fresh.add_observations(s_good)
    require(model.n_obs() == fresh.n_obs(), "big_refusal.then_exactly_once", lambda: "after a refused batch the repaired batch of %d observations leaves the model with %d observations; a fresh model holds %d" % (n, model.n_obs(), fresh.n_obs()))
    return {"nontrivial": True, "labels": ["big-refusal", case["model"]]}


def check_case(case):
    if case.get("kind") == "big_refusal":
        return _check_big_refusal(case)
    from batchie.data import ExperimentSpace, create_single_treatment_effect_map
    from vf.cli import warm

    if case["cli"]:
        warm()
    sc = case["screen"]
    tm, sm = S.space_mappings(sc["ns"], sc["nt"])
    rows = sc["rows"]
    screen_a = S.build_screen(sc, treatment_mapping=tm, sample_mapping=sm)
    twin_rows = [dict(r, o=case["twin"].get(str(i), r["o"])) for i, r in enumerate(rows)]
    screen_b = S.build_screen(dict(sc, rows=twin_rows), treatment_mapping=tm, sample_mapping=sm)
    n_diff = sum(1 for i, r in enumerate(rows) if str(i) in case["twin"] and not S.same_bits(np.array([case["twin"][str(i)]]), np.array([r["o"]])))
    paths = []
    try:
        with np.errstate(all="ignore"):
            a = _run_pipeline(case, screen_a, paths)
            b = _run_pipeline(case, screen_b, paths)
    finally:
        tmp.cleanup(*paths)
    for key, what in (("training", "data handed to the model"), ("n_obs", "number of training observations"), ("table", "single-effect table"), ("thetas", "posterior samples"), ("dense", "distance matrix"), ("scores", "plate scores"), ("chosen", "selected plate")):
        if key in a or key in b:
            require(_same(a.get(key), b.get(key)), "noninterference." + key, lambda: "%s differ between two screens that differ only in masked observation values (masked rows changed: %d): %r vs %r" % (what, n_diff, _short(a.get(key)), _short(b.get(key))))

    # ---- the same twin comparison with non-default constructor options of the model (library path; the CLI cannot pass them)
    if case.get("model_opts") and not case["cli"]:
        def attempt(screen_):
            ps = []
            try:
                with np.errstate(all="ignore"):
                    return _run_pipeline(dict(case, opts=case["model_opts"], n_chains=1), screen_, ps)
            except Exception as e:  # an option combination the model itself cannot run: only the twins' agreement matters here
                return {"raised": type(e).__name__}
            finally:
                tmp.cleanup(*ps)

        a2, b2 = attempt(screen_a), attempt(screen_b)
        for key, what in (("raised", "outcome (an exception)"), ("training", "data handed to the model"), ("n_obs", "number of training observations"), ("table", "single-effect table"), ("thetas", "posterior samples"), ("dense", "distance matrix"), ("scores", "plate scores"), ("chosen", "selected plate")):
            if key in a2 or key in b2:
                require(_same(a2.get(key), b2.get(key)), "noninterference.with_options." + key, lambda: "with model options %r: %s differ between two screens that differ only in masked observation values: %r vs %r" % (case["model_opts"], what, _short(a2.get(key)), _short(b2.get(key))))

    # ---- a single-agent measurement that sits behind the mask: the only single-agent row of one (sample, treatment) is moved to a masked
    # plate (it is then known to the screen but not to the trained model); whatever the pipeline does with such a screen - refuse
    # it or run - it does the same for both twins, which now also differ in that row's masked value
    masked_plates = sorted({r["p"] for r in rows if r["p"] not in set(sc["observed"])})
    singles = [i for i, r in enumerate(rows) if r["p"] in set(sc["observed"]) and r["t"].count("ctl") == 1]
    if case["model"] == "SparseDrugComboInteraction" and not case["cli"] and singles and masked_plates:
        j = singles[case["seed"] % len(singles)]
        key_ = (rows[j]["s"], tuple(sorted(zip(rows[j]["t"], rows[j]["d"]))))
        same_ = [i for i in singles if (rows[i]["s"], tuple(sorted(zip(rows[i]["t"], rows[i]["d"])))) == key_ or (rows[i]["s"] == rows[j]["s"] and set(rows[i]["t"]) == set(rows[j]["t"]))]
        moved = [dict(r, p=masked_plates[0]) if i in same_ else r for i, r in enumerate(rows)]
        if any(r["p"] in set(sc["observed"]) for r in moved):
            moved_b = [dict(r, o=(0.123 if i in same_ else case["twin"].get(str(i), r["o"])) if r["p"] not in set(sc["observed"]) else r["o"]) for i, r in enumerate(moved)]
            obs_left = sorted({r["p"] for r in moved if r["p"] in set(sc["observed"])})
            sa_ = S.build_screen(dict(sc, rows=moved, observed=obs_left), treatment_mapping=tm, sample_mapping=sm)
            sb_ = S.build_screen(dict(sc, rows=moved_b, observed=obs_left), treatment_mapping=tm, sample_mapping=sm)

            def attempt_moved(screen_):
                ps = []
                try:
                    with np.errstate(all="ignore"):
                        return _run_pipeline(dict(case, n_chains=1), screen_, ps)
                except Exception as e:  # (the pinned tree refuses such a screen in the distance step: a KeyError for the missing effect)
                    return {"raised": type(e).__name__}
                finally:
                    tmp.cleanup(*ps)

            a3, b3 = attempt_moved(sa_), attempt_moved(sb_)
            for key, what in (("raised", "outcome (an exception)"), ("training", "data handed to the model"), ("table", "single-effect table"), ("thetas", "posterior samples"), ("dense", "distance matrix"), ("scores", "plate scores"), ("chosen", "selected plate")):
                if key in a3 or key in b3:
                    require(_same(a3.get(key), b3.get(key)), "noninterference.single_agent_behind_mask." + key, lambda: "a (sample, treatment) whose only single-agent measurement is masked: %s differ between two screens that differ only in masked observation values: %r vs %r" % (what, _short(a3.get(key)), _short(b3.get(key))))

    # ---- training-set oracle (API path only: the arrays are observable there)
    cls = _model_cls(case["model"])
    model = cls(experiment_space=ExperimentSpace.from_screen(screen_a), n_embedding_dimensions=case["D"])
    observed = screen_a.subset_observed()
    model.add_observations(observed)
    y, cl, d1, d2 = _training_arrays(model)
    sid = np.asarray(observed.sample_ids).astype(int)
    tid = np.asarray(observed.treatment_ids).astype(int)
    obs = np.asarray(observed.observations, dtype=float)
    if case["model"] == "SparseDrugCombo":
        exp_y = logit(np.clip(obs.astype(np.float32), 0.01, 0.99)).astype(np.float64)
        exp = sorted(zip(sid.tolist(), tid[:, 0].tolist(), tid[:, 1].tolist(), exp_y.tolist()))
        got = sorted(zip(cl.tolist(), d1.tolist(), d2.tolist(), y.tolist()))
        require(model.n_obs() == len(exp), "training_set.count", lambda: "model holds %d observations, the screen has %d observed experiments" % (model.n_obs(), len(exp)))
        require(got == exp, "training_set.rows", lambda: "training rows %r, expected every observed experiment once as (sample, t1, t2, logit(clip(obs))) %r" % (got[:4], exp[:4]))
    else:
        combo = (tid != -1).all(axis=1)
        exp = sorted(zip(sid[combo].tolist(), tid[combo, 0].tolist(), tid[combo, 1].tolist()))
        got = sorted(zip(cl.tolist(), d1.tolist(), d2.tolist()))
        require(got == exp, "training_set.interaction_rows", lambda: "interaction model trains on (sample, t1, t2) rows %r; the observed full combinations are %r" % (got[:6], exp[:6]))
        require(bool(np.all(np.isfinite(y))), "training_set.interaction_values", "non-finite transformed observation in the training data")
        ref_table = create_single_treatment_effect_map(sample_ids=sid, treatment_ids=tid, observation=obs)
        got_table = {(int(k[0]), int(k[1])): float(v) for k, v in model.single_effect_lookup.items()}
        ref_table = {(int(k[0]), int(k[1])): float(v) for k, v in ref_table.items()}
        require(got_table == ref_table, "training_set.single_effect_table", "single-effect table is not the single-agent effect map of the observed rows")

    # ---- "each exactly once" also when the observed experiments arrive in two batches (train, reveal a plate, add it):
    #      same training arrays and, under controlled randomness, bit-identical posterior samples as when handed over in one go
    if case["model"] == "SparseDrugCombo" and observed.size >= 2:
        from batchie import sampling
        from batchie.core import ThetaHolder

        k = 1 + case["seed"] % (observed.size - 1)
        first = np.arange(observed.size) < k
        m_one = cls(experiment_space=ExperimentSpace.from_screen(screen_a), n_embedding_dimensions=case["D"])
        m_one.add_observations(observed)
        m_two = cls(experiment_space=ExperimentSpace.from_screen(screen_a), n_embedding_dimensions=case["D"])
        m_two.add_observations(observed.subset(first))
        m_two.add_observations(observed.subset(~first))
        require(_same(_training_arrays(m_one), _training_arrays(m_two)) and m_one.n_obs() == m_two.n_obs(), "training_set.two_batches.rows", "training rows differ when the same observed experiments are added in two batches")
        outs = []
        for m_ in (m_one, m_two):
            with controlled(case["seed"]):
                h = sampling.sample(model=m_, results=ThetaHolder(n_thetas=3), seed=case["seed"], n_chains=1, chain_index=0, n_burnin=1, thin=1)
            outs.append([_theta_items(t) for t in h.thetas])
        require(_same(outs[0], outs[1]), "training_set.two_batches.posterior", lambda: "posterior samples differ when the same %d observed experiments are added in two batches (%d + %d) instead of one" % (observed.size, k, observed.size - k))
        # the same experiments arriving while the chain is running: first batch, a sweep, second batch, a sweep (no reset in between) -
        # the model is then trained on all of them, each once: its rows are those of the one-batch model and its intercept (documented
        # as the mean of the transformed observations) is their mean
        m_run = cls(experiment_space=ExperimentSpace.from_screen(screen_a), n_embedding_dimensions=case["D"])
        m_run.add_observations(observed.subset(first))
        m_run.set_rng(np.random.default_rng(case["seed"] % 1000))
        with np.errstate(all="ignore"):
            m_run.step()
            m_run.add_observations(observed.subset(~first))
            m_run.step()
        require(_same(_training_arrays(m_one), _training_arrays(m_run)) and m_one.n_obs() == m_run.n_obs(), "training_set.interleaved.rows", "training rows differ when the second batch of observed experiments arrives between two sweeps")
        wm_ = getattr(m_run, "wrapped_model", None)
        if wm_ is not None and hasattr(wm_, "alpha") and hasattr(wm_, "y") and getattr(wm_, "fake_intercept", True) and len(wm_.y):
            ybar_ = float(np.mean(np.asarray(wm_.y, dtype=float)))
            require(abs(float(wm_.alpha) - ybar_) <= 1e-5 * (1 + abs(ybar_)), "training_set.interleaved.intercept", lambda: "after first batch / sweep / second batch / sweep the model's intercept is %r; the mean of the transformed observations it holds (%d) is %r" % (float(wm_.alpha), len(wm_.y), ybar_))

    # ---- refusals
    obs_ids = sorted(int(p_.plate_id) for p_ in screen_a.plates if bool(np.all(p_.observation_mask)))
    un_ids = sorted(int(p_.plate_id) for p_ in screen_a.plates if not bool(np.any(p_.observation_mask)))
    for label, mutate in (("masked", None), ("masked_view_combine", "combine"), ("masked_view_concat", "concat"), ("masked_view_subset", "subset"), ("only_masked_rows", "unobserved"), ("only_masked_plate", "plate"), ("partly_revealed_plate_whole_screen", "partial:screen"), ("partly_revealed_plate", "partial:plate"), ("partly_revealed_plate_subset", "partial:subset"), ("merged_observed_and_masked_plate", "merged"), ("negative", -0.2), ("nan", float("nan"))):
        m2 = cls(experiment_space=ExperimentSpace.from_screen(screen_a), n_embedding_dimensions=case["D"])
        if mutate is None:
            data = screen_a  # still contains masked rows
        elif mutate == "unobserved":
            data = screen_a.subset_unobserved()  # nothing but masked rows
        elif mutate == "plate":
            data = screen_a.get_plate(un_ids[case["seed"] % len(un_ids)])  # one masked plate
        elif isinstance(mutate, str) and (mutate.startswith("partial:") or mutate == "merged"):
            # a plate that holds observed AND masked rows - reachable only through a history on the screen object: results for
            # part of a plate arrive (set_observed), or an observed plate is merged with a masked one
            fresh = S.build_screen(sc, treatment_mapping=tm, sample_mapping=sm)
            if mutate == "merged":
                po, pu = fresh.get_plate(obs_ids[case["seed"] % len(obs_ids)]), fresh.get_plate(un_ids[case["seed"] % len(un_ids)])
                try:
                    data = po.merge(pu) if case["seed"] % 2 else pu.merge(po)
                except ValueError:
                    continue  # (merging plates of different status refused: no such plate)
                if data is None:
                    data = fresh
            else:
                big = [u for u in un_ids if int(np.sum(np.asarray(fresh.get_plate(u).selection_vector))) >= 2]
                if not big:
                    continue
                pu = fresh.get_plate(big[case["seed"] % len(big)])
                idx = np.flatnonzero(np.asarray(pu.selection_vector))
                part = np.zeros(fresh.size, dtype=bool)
                part[idx[: max(1, len(idx) // 2)] if case["seed"] % 2 else idx[len(idx) // 2 :]] = True
                try:
                    fresh.set_observed(part, np.full(int(part.sum()), 0.5))
                except ValueError:
                    continue  # (revealing part of a plate refused: no such screen)
                if mutate == "partial:screen":
                    data = fresh
                elif mutate == "partial:plate":
                    data = fresh.subset(np.asarray(pu.selection_vector))
                else:
                    po = fresh.get_plate(obs_ids[case["seed"] % len(obs_ids)])
                    data = fresh.subset(np.asarray(po.selection_vector) | np.asarray(pu.selection_vector))
            if bool(np.all(np.asarray(data.observation_mask))):
                continue
        elif mutate in ("combine", "concat", "subset"):
            # views that hold an observed plate AND a masked plate (in either order of construction)
            from batchie.data import ScreenSubset

            po, pu = screen_a.get_plate(obs_ids[case["seed"] % len(obs_ids)]), screen_a.get_plate(un_ids[case["seed"] % len(un_ids)])
            if mutate == "combine":
                data = po.combine(pu) if case["seed"] % 2 else pu.combine(po)
            elif mutate == "concat":
                data = ScreenSubset.concat([po, pu])
            else:
                data = screen_a.subset(np.asarray(po.selection_vector) | np.asarray(pu.selection_vector))
        else:
            obs_rows = [i for i, r in enumerate(rows) if r["p"] in set(sc["observed"])]
            # corrupt an observed full-combination row if there is one (the row class every model trains on), else any observed row
            combos = [i for i in obs_rows if "ctl" not in rows[i]["t"]]
            j = (combos or obs_rows)[case["seed"] % len(combos or obs_rows)]
            bad_rows = [dict(r, o=mutate) if i == j else r for i, r in enumerate(rows)]
            data = S.build_screen(dict(sc, rows=bad_rows), treatment_mapping=tm, sample_mapping=sm).subset_observed()
        try:
            m2.add_observations(data)
        except ValueError:
            require(m2.n_obs() == 0, "refusal.%s.state" % label, "model kept observations although it refused the input")
            continue
        raise Violation("refusal." + label, "%s accepted input that contains %s observations (n_obs=%d)" % (case["model"], {"negative": "negative", "nan": "NaN"}.get(label, "masked"), m2.n_obs()))

    labels = [case["model"], case["scorer"], "cli" if case["cli"] else "api"]
    if any(isinstance(v, float) and v != v for v in case["twin"].values()):
        labels.append("nan-behind-mask")
    return {"nontrivial": n_diff >= 1 and len(a["scores"]) >= 1, "labels": labels}


def _short(x):
    s = repr(x)
    return s if len(s) < 300 else s[:300] + "..."
