"""C12 - plates are observed atomically; revealing is exact, monotone and value-preserving (history property)."""
import json
import os
import math

import numpy as np
from hypothesis import strategies as st

from vf import strategies as S
from vf import tmp
from vf.cli import run_cli
from vf.engine import Violation, require

ID = "C12"
LEVEL = "exploration"
TECHNIQUE = "model-based generation of mask/unmask/reveal/save/load/CLI histories against a {plate: observed} model with a frozen row table; constructor and set_observed examples per case"
RULE = (
    "screens of arity 1..3 with 1..8 plates whose stored values include 0, NaN and all-zero plates; histories of 3..10 operations from "
    "{mask, unmask, reveal(ids: unobserved / already observed / repeated / unknown, in one of five reveals a long request with 10..30 unknown ids near or far (5000, 1e5, 2**33, negative) outside the id range), save+load, reveal_plate CLI, extract_screen_metadata CLI}, (in half the cases every save and the CLI's output go to one and the same path, over what is there), sometimes continued "
    "from an EARLIER screen object (branching), with every earlier object re-checked against its own model after each step; "
    "per case also the constructor rules (mixed plate rejected, observations without mask, neither, mask without observations) and set_observed on a drawn "
    "selection. Non-trivial = history with >=2 reveals of which one touches an already observed or unknown id. distinct = distinct case JSON."
    ' Also: histories during which 140 .. 1100 other screens are built and kept alive; one history in sixty has 40..70 operations.'
    ' After a refused command-line reveal the input archive is loaded again and compared.'
    ' Every plain save is surrounded by neighbour files that must survive it.'
)
ASSUMPTIONS = [
    "a reveal is expected to refuse exactly when the stored values of the selected rows are all zero (incl. the empty selection) or contain NaN - the two guards the statement names",
    "plate ids are those of the current screen (they are a function of the plate names, which never change)",
]


def budgets(tier):
    if tier == "quick":
        return {"examples": 500, "max_s": 110, "shrink_s": 20, "shards": 1}
    return {"examples": 2000, "max_s": 700, "shrink_s": 90, "shards": 16}


_good = st.floats(min_value=0.01, max_value=1.2, allow_nan=False)
_obs = st.integers(0, 11).flatmap(lambda k: st.sampled_from([0.0, -0.0, float("nan"), 5e-324, 0.0]) if k == 0 else _good)

OPS = ["mask", "unmask", "reveal", "reveal", "reveal", "reveal", "reveal", "saveload", "cli_reveal", "cli_reveal", "cli_meta"]


@st.composite
def _case(draw):
    sc = draw(S.screen_case(min_rows=2, max_rows=14, obs=_obs, max_plates=8))
    if draw(st.integers(0, 3)) == 0:
        # force one plate of tiny but not-all-zero values (a complete-kill plate): it must be revealable
        p1 = sc["rows"][-1]["p"]
        tiny = [1e-9, 5e-324, 3e-9, 0.0, 1e-12]
        for i, r in enumerate(r for r in sc["rows"] if r["p"] == p1):
            r["o"] = tiny[i % len(tiny)]
    if draw(st.integers(0, 3)) == 0:
        # force one all-zero plate
        p0 = sc["rows"][0]["p"]
        for r in sc["rows"]:
            if r["p"] == p0:
                r["o"] = 0.0
    ops = []
    n_pl = len({r["p"] for r in sc["rows"]})
    for _ in range(draw(st.one_of(*([st.integers(3, 10)] * 59 + [st.integers(40, 70)])))):  # one history in sixty is long
        op = draw(st.sampled_from(OPS))
        # indices into the screen's plates; now and then an unknown id (-1, 99) or an empty list
        k = draw(st.sampled_from([0, 1, 1, 1, 2, 2, 3])) if op == "reveal" else draw(st.integers(1, 3))
        ids = []
        for _ in range(k):
            j = draw(st.integers(0, n_pl + 7))
            ids.append(j if j < n_pl else (-1 if j == n_pl else draw(st.sampled_from([99, 10, 20, 30])) if j == n_pl + 1 else (j * 7 + len(ids)) % n_pl))
        if op in ("reveal", "cli_reveal") and draw(st.integers(0, 4)) == 0:
            # a long request: the drawn ids plus a run of 10..30 unknown ids near or far outside the screen's range (stale ids)
            base = draw(st.sampled_from([n_pl + 1, 64, 5000, 100000, 2**33, -40]))
            ids = ids + list(range(base, base + draw(st.integers(10, 30))))
            if draw(st.booleans()):
                ids = ids[::-1]
        ops.append({"op": op, "ids": ids})
    n = len(sc["rows"])
    return {
        "screen": sc,
        "ops": ops,
        "same_path": draw(st.booleans()),
        # plate names that look like numbers ("10", "20", ... - barcodes): an unknown plate id such as 10 then equals a plate NAME
        "numeric_plate_names": draw(st.integers(0, 2)) == 0,
        "set_sel": [draw(st.booleans()) for _ in range(n)],
        "set_vals": [draw(st.floats(min_value=-2, max_value=2, allow_nan=False)) for _ in range(n)],
    }


def strategy(tier):
    return _case()


def exhaustive(tier):
    # a screen that stays in use while hundreds of other screens (other plate layouts) are built, loaded and kept alive in the same
    # process - an analysis session, a server - and is then masked / revealed again
    for crowd, seed in [(300, 1), (140, 2)] + ([(1100, 3), (520, 4), (257, 5)] if tier != "quick" else []):
        rows = [{"s": "s%d" % (i % 3), "p": "plate%d" % (i % 5), "t": ["t%d" % (i % 4), "t%d" % ((i + 1 + i // 4 % 3) % 4)], "d": [1.0, 2.0], "o": 0.1 + 0.05 * i} for i in range(15)]
        sc = {"arity": 2, "control": "ctl", "rows": rows, "observed": ["plate0"], "layout": None}
        ops = [{"op": "reveal", "ids": [1]}, {"op": "mask", "ids": [1]}, {"op": "reveal", "ids": [2, 3]}, {"op": "saveload", "ids": [2]}, {"op": "reveal", "ids": [4]}, {"op": "unmask", "ids": [1]}, {"op": "mask", "ids": [3]}, {"op": "reveal", "ids": [0, 4]}, {"op": "cli_meta", "ids": [1]}, {"op": "reveal", "ids": [3]}]
        yield {"screen": sc, "ops": ops, "same_path": False, "numeric_plate_names": False, "set_sel": [i % 2 == 0 for i in range(15)], "set_vals": [0.5] * 15, "crowd": crowd, "seed": seed}


def _integer_mask_counts(sc):
    """the same screen with its mask given as 0/1 integers (files written by tools without a boolean type): wherever the package
    accepts such a screen - construction, save/load, reveal, the metadata command - the plate counts it reports are those of the
    mask; a refusal (ValueError / TypeError) of the representation is fine and ends this part"""
    import json as _json

    from batchie.data import Screen
    from batchie.retrospective import reveal_plates

    tn, td, sn, pn, ob, mask = S.arrays(dict(sc, layout=None))
    if len(sn) == 0 or np.isnan(ob).any():
        return None
    paths = []
    try:
        try:
            scr = Screen(treatment_names=tn, treatment_doses=td, sample_names=sn, plate_names=pn, observations=ob, observation_mask=mask.astype(np.uint8), control_treatment_name=sc["control"])
        except (ValueError, TypeError):
            return "integer-mask-refused"
        status = {}
        for p_, m_ in zip(pn.tolist(), mask.tolist()):
            status[p_] = bool(m_)

        def counts(s_, tag):
            a, o = tmp.fresh("im.h5"), tmp.fresh("im.json")
            paths.extend([a, o])
            try:
                s_.save_h5(a)
                run_cli("extract_screen_metadata", ["--screen", a, "--output", o])
            except (ValueError, TypeError):
                return False
            meta = _json.load(open(o))
            nu = sum(1 for v in status.values() if not v)
            require(meta["n_unobserved_plates"] == nu and meta["n_observed_plates"] == len(status) - nu, "integer_mask.metadata." + tag, lambda: "mask given as 0/1 integers: metadata reports %r unobserved / %r observed plates, the mask has %d / %d" % (meta["n_unobserved_plates"], meta["n_observed_plates"], nu, len(status) - nu))
            return True

        if not counts(scr, "initial"):
            return "integer-mask-refused"
        name_to_id = {str(k): int(v) for k, v in zip(*scr.plate_mapping)}
        unobs = sorted(p_ for p_, v in status.items() if not v)
        for p_ in unobs[:2]:
            vals = ob[pn == p_]
            if np.all(vals == 0):
                continue
            try:
                scr = reveal_plates(scr, [name_to_id[p_]])
            except (ValueError, TypeError):
                return "integer-mask-refused"
            status[p_] = True
            if not counts(scr, "after_reveal"):
                return "integer-mask-refused"
        return "integer-mask-counted"
    finally:
        tmp.cleanup(*paths)


def _check_state(cur, sc, frozen, model, tag):
    rows = sc["rows"]
    n = len(rows)
    require(cur.size == n, tag + ".size", "number of experiments changed")
    mask = np.asarray(cur.observation_mask)
    pn = [str(x) for x in cur.plate_names]
    require(pn == frozen["plates"], tag + ".plate_assignment", lambda: "plate names changed: %r -> %r" % (frozen["plates"], pn))
    pid = [int(x) for x in cur.plate_ids]
    require(len(set(zip(pn, pid))) == len(set(pn)) == len(set(pid)), tag + ".plate_ids_follow_names", lambda: "plate ids %r do not group the experiments the way the plate names %r do" % (pid, pn))
    for p in sorted(set(pn)):
        m = [bool(mask[i]) for i in range(n) if pn[i] == p]
        require(all(x == m[0] for x in m), tag + ".atomic", lambda: "plate %r is partly observed: %r" % (p, m))
        require(m[0] == model[p], tag + ".status", lambda: "plate %r observed=%s, expected %s" % (p, m[0], model[p]))
    require(S.same_str(cur.treatment_names, frozen["tn"]) and S.same_str(cur.sample_names, frozen["sn"]), tag + ".names", "sample/treatment names changed")
    require(S.same_bits(cur.treatment_doses, frozen["td"]), tag + ".doses", "doses changed")
    require(S.same_bits(cur.observations, frozen["ob"]), tag + ".values", lambda: "stored observation values changed: %r -> %r" % (frozen["ob"].tolist(), np.asarray(cur.observations).tolist()))


def check_case(case):
    from batchie.data import Screen
    from batchie.retrospective import mask_screen, reveal_plates, unmask_screen

    sc = case["screen"]
    if case.get("numeric_plate_names"):
        ren_ = {p_: str(10 * (i_ + 1)) for i_, p_ in enumerate(sorted({r["p"] for r in sc["rows"]}))}
        sc = dict(sc, rows=[dict(r, p=ren_[r["p"]]) for r in sc["rows"]], observed=sorted(ren_[p_] for p_ in sc["observed"]))
    rows = sc["rows"]
    n = len(rows)
    tn, td, sn, pn, ob, mask0 = S.arrays(sc)
    cur = S.build_screen(sc)
    frozen = {"plates": [r["p"] for r in rows], "tn": tn.copy(), "sn": sn.copy(), "td": td.copy(), "ob": ob.copy()}
    model = {p: (p in set(sc["observed"])) for p in set(frozen["plates"])}
    name_to_id = {str(k): int(v) for k, v in zip(*cur.plate_mapping)}
    id_to_name = {v: k for k, v in name_to_id.items()}
    _check_state(cur, sc, frozen, model, "initial")
    versions = [(cur, dict(model))]
    reveals = 0
    branched = False
    touched_old = False
    paths = []
    shared = tmp.fresh("screen_in_place.h5") if case.get("same_path") else None
    if shared:
        paths.append(shared)

    def fresh_or_shared(name):
        # in half the cases every save of the history goes to ONE path (the screen file is updated in place, the reveal CLI writes
        # its output over its input), otherwise each save gets a fresh path
        return shared or tmp.fresh(name)

    crowd = []

    def grow_crowd(k, salt):
        # other screens with other plate layouts, built now and kept alive until the case ends
        for j in range(k):
            q = len(crowd) + salt
            rows_ = [dict(r_, p="other%d_%d" % (q % 7, (i_ * (1 + q % 3) + q) % (2 + q % 6))) for i_, r_ in enumerate(rows)][: max(2, n - q % 4)]
            crowd.append(S.build_screen(dict(sc, rows=rows_, observed=[])))

    try:
        for step, op in enumerate(case["ops"]):
            kind = op["op"]
            if case.get("crowd"):
                grow_crowd(case["crowd"] // len(case["ops"]) + 1, step)
            if versions[-1][0] is not cur or versions[-1][1] != model:
                versions.append((cur, dict(model)))
            if len(versions) >= 2 and op["ids"] and (op["ids"][0] + step) % 4 == 0:
                # branch: continue from an earlier screen object instead of the latest one
                cur, model = versions[(op["ids"][0] + step) % len(versions)]
                model = dict(model)
                branched = True
            if kind == "mask":
                cur = mask_screen(cur)
                model = {p: False for p in model}
            elif kind == "unmask":
                cur = unmask_screen(cur)
                model = {p: True for p in model}
            elif kind == "saveload":
                p = fresh_or_shared("s.h5")
                paths.append(p)
                near = tmp.neighbours(p)  # working-file-like neighbours of the archive: a save leaves them alone
                cur.save_h5(p)
                bad_ = tmp.changed_neighbours(near)
                require(not bad_, "save.touches_other_files", lambda: "saving the screen to %s changed other files of that directory: %r" % (os.path.basename(p), bad_))
                cur = Screen.load_h5(p)
            elif kind == "cli_meta":
                p, o = fresh_or_shared("s.h5"), tmp.fresh("meta.json")
                paths += [p, o]
                cur.save_h5(p)
                run_cli("extract_screen_metadata", ["--screen", p, "--output", o], verbose=step % 2 == 1)
                meta = json.load(open(o))
                nu = sum(1 for v in model.values() if not v)
                require(meta["n_unobserved_plates"] == nu, "metadata.n_unobserved_plates", lambda: "metadata reports %r unobserved plates, model has %d" % (meta["n_unobserved_plates"], nu))
                require(meta["n_observed_plates"] == len(model) - nu, "metadata.n_observed_plates", lambda: "metadata reports %r observed plates, model has %d" % (meta["n_observed_plates"], len(model) - nu))
                require(meta["n_plates"] == len(model) and meta["size"] == n, "metadata.totals", "metadata totals wrong")
            elif kind in ("reveal", "cli_reveal"):
                ids = list(op["ids"])
                if case.get("numeric_plate_names"):
                    # every unknown id of the request equals the NAME of some plate (10, 20, ...), which is still no plate id
                    ids = [i if i in id_to_name else 10 * (abs(i) % len(id_to_name) + 1) for i in ids]
                requested = {id_to_name[i] for i in ids if i in id_to_name}
                sel = np.array([r["p"] in requested for r in rows], dtype=bool)
                vals = ob[sel]
                refuse = bool(np.all(vals == 0)) or bool(np.any(np.isnan(vals)))
                before_unobs = sum(1 for v in model.values() if not v)
                newly = {p for p in requested if not model[p]}
                try:
                    if kind == "reveal":
                        new = reveal_plates(cur, ids)
                    else:
                        p = fresh_or_shared("s.h5")
                        o = p if shared else tmp.fresh("adv.h5")
                        paths += [p, o]
                        cur.save_h5(p)
                        run_cli("reveal_plate", ["--screen", p, "--output", o, "--plate-id"] + ids, verbose=step % 2 == 0)
                        new = Screen.load_h5(o)
                except ValueError as e:
                    require(refuse, kind + ".unexpected_refusal", lambda: "reveal of %r refused (%s) although the selected values %r are neither all zero nor NaN" % (ids, e, vals.tolist()))
                    _check_state(cur, sc, frozen, model, kind + ".after_refusal")
                    if kind == "cli_reveal":
                        # a refused reveal changes nothing on disk either: the input archive (which in the in-place mode is also the
                        # output path) still holds the screen as it was
                        try:
                            on_disk = Screen.load_h5(p)
                        except (OSError, KeyError) as e2:
                            raise Violation(kind + ".after_refusal.archive", "after a refused reveal_plate (ids %r) the screen archive %s can no longer be loaded: %r" % (ids, "that was both --screen and --output" if o == p else "given as --screen", e2))
                        _check_state(on_disk, sc, frozen, model, kind + ".after_refusal.archive")
                    continue
                require(not refuse, kind + ".missing_refusal", lambda: "reveal of %r accepted although the selected stored values are %r" % (ids, vals.tolist()))
                cur = new
                for p in requested:
                    model[p] = True
                reveals += 1
                if any((i not in id_to_name) or (id_to_name[i] not in newly) for i in ids) or len(set(ids)) < len(ids):
                    touched_old = True
                after_unobs = sum(1 for v in model.values() if not v)
                require(before_unobs - after_unobs == len(newly), "reveal.count", "model bookkeeping")
            _check_state(cur, sc, frozen, model, kind)
            for v_i, (old, old_model) in enumerate(versions[-4:]):
                if old is not cur:
                    _check_state(old, sc, frozen, old_model, kind + ".earlier_screen_untouched")
    finally:
        tmp.cleanup(*paths)

    # ---- constructor rules
    plates = sorted(set(frozen["plates"]))
    multi = [p for p in plates if frozen["plates"].count(p) >= 2]
    if multi:
        bad = np.array([r["p"] in set(sc["observed"]) for r in rows], dtype=bool)
        i = frozen["plates"].index(multi[0])
        bad[i] = not bad[i]
        try:
            Screen(treatment_names=tn, treatment_doses=td, sample_names=sn, plate_names=pn, observations=ob.copy(), observation_mask=bad, control_treatment_name=sc["control"])
        except ValueError:
            pass
        else:
            raise Violation("construct.mixed_plate_rejected", "a screen with a partly observed plate %r was constructed" % multi[0])
    s1 = Screen(treatment_names=tn, treatment_doses=td, sample_names=sn, plate_names=pn, observations=ob.copy(), control_treatment_name=sc["control"])
    require(bool(np.all(s1.observation_mask)) and S.same_bits(s1.observations, ob), "construct.observations_without_mask", "observations without mask are not all observed / values changed")
    s2 = Screen(treatment_names=tn, treatment_doses=td, sample_names=sn, plate_names=pn, control_treatment_name=sc["control"])
    require(not np.any(s2.observation_mask) and bool(np.all(np.asarray(s2.observations) == 0)), "construct.nothing_given", "no observations given: screen is not all-unobserved with zero values")
    try:
        Screen(treatment_names=tn, treatment_doses=td, sample_names=sn, plate_names=pn, observation_mask=np.ones(n, dtype=bool), control_treatment_name=sc["control"])
    except ValueError:
        pass
    else:
        raise Violation("construct.mask_without_observations", "mask without observations was accepted")

    # ---- set_observed
    s3 = S.build_screen(sc)
    sel = np.array(case["set_sel"], dtype=bool)
    vals = np.array(case["set_vals"], dtype=float)[sel]
    before_o = np.array(s3.observations, copy=True)
    before_m = np.array(s3.observation_mask, copy=True)
    s3.set_observed(sel, vals)
    ao, am = np.asarray(s3.observations), np.asarray(s3.observation_mask)
    require(S.same_bits(ao[sel], vals), "set_observed.values", lambda: "stored %r at the selected rows, given %r" % (ao[sel].tolist(), vals.tolist()))
    require(bool(np.all(am[sel])), "set_observed.marks_selected", "selected rows not marked observed")
    require(S.same_bits(ao[~sel], before_o[~sel]) and np.array_equal(am[~sel], before_m[~sel]), "set_observed.others_untouched", "rows outside the selection changed")

    labels = ["reveals=%d" % min(reveals, 3)] + (["branched-history"] if branched else [])
    lab = _integer_mask_counts(sc)
    if lab:
        labels.append(lab)
    if touched_old:
        labels.append("touches-observed-or-unknown-or-repeated")
    return {"nontrivial": reveals >= 2 and touched_old, "labels": labels, "counts": {"ops": len(case["ops"])}}
