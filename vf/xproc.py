"""Steps of one workflow in separate interpreter processes.  In the shipped pipeline every stage (and every chunk of a chunked
stage) is its own python process with its own string-hash salt; whatever one process writes must mean the same to the next.  The
child runs the SAME tree (BATCHIE_REPO is inherited) through the same in-process entry (vf.cli.run_cli) or a small python body."""
import json
import os
import subprocess
import sys

from .engine import HarnessError

HERE = os.path.dirname(os.path.dirname(os.path.abspath(__file__)))


def _env(hashseed):
    env = dict(os.environ)
    env["PYTHONHASHSEED"] = str(int(hashseed))
    env.pop("PYTHONOPTIMIZE", None)
    env["VERIF_NO_ENVSWEEP"] = "1"
    return env


def _run(code, hashseed, what, timeout=300):
    p = subprocess.run([sys.executable, "-c", code], env=_env(hashseed), stdout=subprocess.PIPE, stderr=subprocess.PIPE, timeout=timeout, cwd=HERE)
    out = p.stdout.decode("utf-8", "replace")
    if p.returncode == 3:  # the code under test raised or exited non-zero: reported to the caller as its outcome
        return False, out + p.stderr.decode("utf-8", "replace")[-2000:]
    if p.returncode != 0:
        raise HarnessError("child process for %s ended with %d: %s" % (what, p.returncode, p.stderr.decode("utf-8", "replace")[-1500:]))
    return True, out


_PRELUDE = "import sys, json\nsys.path.insert(0, %r)\nfrom vf import tree\ntree.activate()\n" % HERE


def cli(name, argv, hashseed):
    """one batchie command in a fresh interpreter with the given string-hash salt -> (completed normally?, text)"""
    code = _PRELUDE + (
        "from vf.cli import run_cli, CliExit\n"
        "try:\n"
        "    run_cli(%r, json.loads(%r))\n"
        "except (CliExit, Exception) as e:\n"
        "    if not any('batchie' in (f.filename or '') for f in __import__('traceback').extract_tb(e.__traceback__)) and not isinstance(e, CliExit):\n"
        "        raise\n"
        "    print('%%s: %%s' %% (type(e).__name__, e)); sys.exit(3)\n"
    ) % (name, json.dumps([str(a) for a in argv]))
    return _run(code, hashseed, name)


def python(body, hashseed, **params):
    """a python body (it sees `params`, `np`, the helpers of vf.strategies as `S`) in a fresh interpreter; it prints its result"""
    code = _PRELUDE + "import numpy as np\nfrom vf import strategies as S\nparams = json.loads(%r)\n" % json.dumps(params) + body
    return _run(code, hashseed, "python body")
