"""Independent re-derivation of the sparse combination model's full conditionals (C08).

Likelihood  y_i ~ N(mu_i, 1/prec),
  mu_i = alpha + W0[c] + V0[a] + V0[b] + W[c].(V1[a]+V1[b]) + sum_d W[c,d] V2[a,d] V2[b,d]      (rows of V* for control are 0)
Priors      W0[c] ~ N(0,1/tau0)   V0[m] ~ N(0,1/(phi0[m] eta0))   W[c] ~ N(0,diag(tau)^-1)
            V2[m] ~ N(0,diag(phi2[m]*eta2)^-1)   V1[m] ~ N(0,diag(phi1[m]*eta1)^-1)
            prec ~ Ga(a0,b0)   tau0 ~ Ga(a0,b0)   tau = cumprod(delta), delta_1 ~ Ga(2,1), delta_{h>1} ~ Ga(3,1)
Everything is computed in float64 from the live parameter arrays, never from the sampler's cached fitted values.
"""
import numpy as np


class State:
    def __init__(self, wm):
        f = lambda x: np.array(x, dtype=np.float64)
        self.y = f(wm.y)
        self.cl = np.array(wm.cline, dtype=int)
        self.a = np.array(wm.dd1, dtype=int)
        self.b = np.array(wm.dd2, dtype=int)
        self.W, self.W0, self.V0, self.V1, self.V2 = f(wm.W), f(wm.W0), f(wm.V0), f(wm.V1), f(wm.V2)
        self.alpha = float(wm.alpha)
        self.prec = float(wm.prec)
        self.tau, self.tau0 = f(wm.tau), float(wm.tau0)
        self.phi0, self.phi1, self.phi2 = f(wm.phi0), f(wm.phi1), f(wm.phi2)
        self.eta0, self.eta1, self.eta2 = float(wm.eta0), f(wm.eta1), f(wm.eta2)
        self.gam = f(wm.gam)
        self.a0, self.b0 = float(wm.a0), float(wm.b0)
        self.n_clines, self.n_dd, self.D = int(wm.n_clines), int(wm.n_drugdoses), int(wm.D)
        self.n = len(self.y)


def z(V, idx):
    out = V[idx].copy()
    out[idx == -1] = 0.0
    return out


def fitted(s):
    if s.n == 0:
        return np.zeros(0)
    return (
        s.alpha
        + s.W0[s.cl]
        + z(s.V0, s.a)
        + z(s.V0, s.b)
        + np.sum(s.W[s.cl] * (z(s.V1, s.a) + z(s.V1, s.b)), axis=1)
        + np.sum(s.W[s.cl] * z(s.V2, s.a) * z(s.V2, s.b), axis=1)
    )


def cond_W0(s, c):
    rows = np.where(s.cl == c)[0]
    if len(rows) == 0:
        return ("prior", 0.0, 1.0 / np.sqrt(s.tau0), 0)
    mu = fitted(s)
    resid = s.y[rows] - (mu[rows] - s.W0[c])
    pp = s.prec * len(rows) + s.tau0
    return ("data", s.prec * resid.sum() / pp, 1.0 / np.sqrt(pp), len(rows))


def cond_V0(s, m):
    rows = np.where((s.a == m) | (s.b == m))[0]
    pr = s.phi0[m] * s.eta0
    if len(rows) == 0:
        return ("prior", 0.0, 1.0 / np.sqrt(pr), 0)
    mu = fitted(s)
    resid = s.y[rows] - (mu[rows] - s.V0[m])
    pp = s.prec * len(rows) + pr
    return ("data", s.prec * resid.sum() / pp, 1.0 / np.sqrt(pp), len(rows))


def _vec(s, X, rows, cur, prior_prec):
    mu = fitted(s)
    resid = s.y[rows] - (mu[rows] - X @ cur)
    Q = s.prec * (X.T @ X) + np.diag(prior_prec)
    b = s.prec * (X.T @ resid)
    return Q, b


def cond_W(s, c):
    rows = np.where(s.cl == c)[0]
    if len(rows) == 0:
        return ("prior", np.zeros(s.D), 1.0 / np.sqrt(s.tau), 0)
    X = z(s.V2, s.a[rows]) * z(s.V2, s.b[rows]) + z(s.V1, s.a[rows]) + z(s.V1, s.b[rows])
    Q, b = _vec(s, X, rows, s.W[c], s.tau)
    return ("data", Q, b, len(rows))


def cond_V2(s, m):
    r1 = np.where(s.a == m)[0]
    r2 = np.where(s.b == m)[0]
    pr = s.phi2[m] * s.eta2
    if len(r1) + len(r2) == 0:
        return ("prior", np.zeros(s.D), 1.0 / np.sqrt(pr), 0)
    X = np.concatenate([s.W[s.cl[r1]] * z(s.V2, s.b[r1]), s.W[s.cl[r2]] * z(s.V2, s.a[r2])])
    rows = np.concatenate([r1, r2])
    Q, b = _vec(s, X, rows, s.V2[m], pr)
    return ("data", Q, b, len(rows))


def cond_V1(s, m):
    r1 = np.where(s.a == m)[0]
    r2 = np.where(s.b == m)[0]
    pr = s.phi1[m] * s.eta1
    if len(r1) + len(r2) == 0:
        return ("prior", np.zeros(s.D), 1.0 / np.sqrt(pr), 0)
    rows = np.concatenate([r1, r2])
    X = s.W[s.cl[rows]]
    Q, b = _vec(s, X, rows, s.V1[m], pr)
    return ("data", Q, b, len(rows))


def cond_prec_obs(s):
    if s.n == 0:
        return (s.a0, s.b0)
    sse = float(np.sum((s.y - fitted(s)) ** 2))
    return (s.a0 + 0.5 * s.n, s.b0 + 0.5 * sse)


def cond_tau0(s):
    return (s.a0 + 0.5 * s.n_clines, s.b0 + 0.5 * float(np.sum(s.W0**2)))


def cond_delta(s, d):
    """multiplicative gamma process: delta_d | rest, with tau_h = prod_{l<=h} delta_l."""
    tau = np.cumprod(s.gam)
    ss = np.sum(s.W**2, axis=0)  # per dimension
    if d == 0:
        shape = 2.0 + 0.5 * s.n_clines * s.D
    else:
        shape = 3.0 + 0.5 * s.n_clines * (s.D - d)
    rate = 1.0 + 0.5 * float(np.sum((tau[d:] / s.gam[d]) * ss[d:]))
    return (shape, rate)


def bounds_ok(wm):
    """documented clipping bounds after the precision blocks; returns a message or None."""
    n = len(wm.y)
    C = 1.0 / np.sqrt(1 + n)
    tol = 1e-6
    for name in ("prec", "tau0", "tau", "eta0", "eta1", "eta2"):
        v = np.asarray(getattr(wm, name), dtype=float)
        if np.any(v < C * (1 - tol)) or np.any(v > 1e6 * (1 + tol)) or np.any(~np.isfinite(v)):
            return "%s = %r outside [%g, 1e6]" % (name, v.tolist(), C)
    N = np.array([len(wm.dd1_idxs[m]) + len(wm.dd2_idxs[m]) for m in range(wm.n_drugdoses)], dtype=float)
    Cm = 1.0 / np.sqrt(1.0 + N)
    for name in ("phi0", "phi1", "phi2"):
        v = np.asarray(getattr(wm, name), dtype=float)
        lo = Cm if v.ndim == 1 else Cm[:, None]
        if np.any(v < lo * (1 - tol)) or np.any(v > 1e6 * (1 + tol)) or np.any(~np.isfinite(v)):
            return "%s outside its documented bounds" % name
    return None
