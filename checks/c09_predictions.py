"""C09 - predictions are pure, row-wise, treatment-order-symmetric and control-neutral."""
import copy

import numpy as np
from hypothesis import strategies as st
from scipy.special import expit

from vf import strategies as S
from vf.engine import Violation, require

ID = "C09"
LEVEL = "exploration"
TECHNIQUE = "Hypothesis-generated parameter sets and screens; metamorphic relations (subset, permutation, column swap, control neutrality) plus an independent closed-form recomputation of the modelled mean"
RULE = (
    "both shipped sample types with finite parameters up to 1e6 in magnitude, arity-2 screens on a shared mapping with control in either/both "
    "columns, duplicate rows, any row order; a boolean sub-selection, a row permutation, the column-swapped screen, the arity-1 twin; the "
    "stacked/averaged helpers on 1..4 samples; NaN parameters must make the helpers raise; inf / NaN parameters of ONE treatment must leave every experiment that does not contain it bit-for-bit unchanged; for the interaction type the first sample's single-effect table is then updated in place (as the model does on new data) and the same screen and subset objects are predicted again. Non-trivial = screen has a control in each column "
    "somewhere and at least one true combination. distinct = distinct case JSON."
    ' Between the two predictions of the predict / merge / predict history the collection helpers are called on the plate with a collection holding a NaN sample.'
    ' Also: views whose selection array changes in place between two predictions (observed-part view and a reveal on its screen; a caller refilling its mask).'
    ' A third of the cases re-enter prediction (another prediction runs at every other line of a whole-screen prediction).'
)
ASSUMPTIONS = [
    "'logistic of the mean' is checked literally for the additive type; for the interaction type the documented relation exp(mean)*clip(product of single effects) clipped to [.01,.99] is used",
    "closed-form mean is compared with tolerance 1e-12 x (sum of |terms|) (float64 re-association only); metamorphic relations at rtol 1e-12",
    "the interaction type's single-effect table covers every (sample, treatment) of the screen (its documented lookup)",
]


def budgets(tier):
    if tier == "quick":
        return {"examples": 1200, "max_s": 80, "shrink_s": 20, "shards": 1}
    return {"examples": 5000, "max_s": 700, "shrink_s": 90, "shards": 16}


_val = st.one_of(st.sampled_from([0.0, -0.0, 1.0, -1.0, 0.5, 5e-324, 1e6, -1e6, 30.0]), st.floats(min_value=-10, max_value=10, allow_nan=False), st.floats(min_value=-1e6, max_value=1e6, allow_nan=False))


@st.composite
def _case(draw):
    sc = draw(S.simple_screen(n_rows=(1, 12), n_samples=(1, 4), n_treat=(1, 5)))
    kind = draw(st.sampled_from(["additive", "additive", "interaction"]))
    n_th = draw(st.integers(1, 4))
    table = draw(S.effect_table(S.full_table_pairs(sc["ns"], sc["nt"]))) if kind == "interaction" else None
    D = draw(st.integers(1, 3))
    thetas = [draw(S.theta_params(kind, sc["ns"], sc["nt"], D=D, values=_val, table=table)) for _ in range(n_th)]
    n = len(sc["rows"])
    return {
        "screen": sc,
        "kind": kind,
        "thetas": thetas,
        "select": [draw(st.booleans()) for _ in range(n)],
        "perm_seed": draw(st.integers(0, 10**6)),
        "int_table": draw(st.booleans()),
    }


def strategy(tier):
    return _case()


def exhaustive(tier):
    # predictions on long screens / with wide embeddings (rows x embedding size in the millions), described by parameters
    for rows, D in ([(4099, 1024), (70001, 64)] if tier == "quick" else [(4099, 1024), (70001, 64), (524291, 8), (1000003, 5)]):
        for kind in ("additive", "interaction"):
            yield {"kind_big": kind, "rows": rows, "D": D, "seed": rows + D}


def _check_big(case):
    """every row of a long screen against the closed form evaluated directly (vectorised in float64), plus subset = whole on the tail"""
    rows, D, kind = case["rows"], case["D"], case["kind_big"]
    r = np.random.default_rng(case["seed"])
    ns, nt = 7, 12
    tm, sm = S.space_mappings(ns, nt)
    sidx = r.integers(0, ns, size=rows)
    t1 = r.integers(-1, nt, size=rows)
    t2 = r.integers(-1, nt, size=rows)
    nm = lambda t: np.where(t < 0, "ctl", np.char.add("t", (t // 2).astype(str)))
    ds = lambda t: np.where(t < 0, 0.0, np.where(t % 2 == 0, 1.0, 2.0))
    from batchie.data import Screen

    screen = Screen(
        treatment_names=np.stack([nm(t1), nm(t2)], axis=1).astype(str),
        treatment_doses=np.stack([ds(t1), ds(t2)], axis=1),
        sample_names=np.char.add("s", sidx.astype(str)).astype(str),
        plate_names=np.char.add("p", (np.arange(rows) % 50).astype(str)).astype(str),
        control_treatment_name="ctl",
        treatment_mapping=tm,
        sample_mapping=sm,
    )
    sid = np.asarray(screen.sample_ids).astype(int)
    tid = np.asarray(screen.treatment_ids).astype(int)
    W = r.normal(size=(ns, D)) / np.sqrt(D)
    V2 = r.normal(size=(nt, D))
    if kind == "additive":
        p = {"kind": "additive", "W": W.tolist(), "W0": r.normal(size=ns).tolist(), "V2": V2.tolist(), "V1": r.normal(size=(nt, D)).tolist(), "V0": r.normal(size=nt).tolist(), "alpha": 0.25, "precision": 2.0}
    else:
        p = {"kind": "interaction", "W": W.tolist(), "V2": V2.tolist(), "precision": 2.0, "table": [[c_, t_, 1.0 if t_ == -1 else 0.5] for c_ in range(ns) for t_ in range(-1, nt)]}
    theta = S.build_theta(p)
    a, b = tid[:, 0], tid[:, 1]
    both = (a >= 0) & (b >= 0)
    exp = np.zeros(rows)
    exp[both] = np.einsum("ij,ij,ij->i", W[sid[both]], V2[a[both]], V2[b[both]])
    if kind == "additive":
        V1, V0, W0 = np.array(p["V1"]), np.array(p["V0"]), np.array(p["W0"])
        exp += p["alpha"] + W0[sid]
        for col in (a, b):
            m = col >= 0
            exp[m] += V0[col[m]] + np.einsum("ij,ij->i", W[sid[m]], V1[col[m]])
    with np.errstate(all="ignore"):
        got = np.asarray(theta.predict_conditional_mean(screen), dtype=float)
        require(got.shape == (rows,), "big.shape", "prediction does not have one entry per experiment")
        bad = np.where(np.abs(got - exp) > 1e-8 * (1 + np.abs(exp)))[0]
        require(bad.size == 0, "big.mean.closed_form", lambda: "%d experiments x embedding size %d (%s sample): %d rows differ from the closed form, first at row %d: %r vs %r" % (rows, D, kind, bad.size, int(bad[0]), float(got[bad[0]]), float(exp[bad[0]])))
        tail = np.zeros(rows, dtype=bool)
        tail[-37:] = True
        sub = np.asarray(theta.predict_conditional_mean(screen.subset(tail)), dtype=float)
        require(_close(sub, got[tail], rtol=1e-9), "big.subset_tail", "the last rows predicted as a subset differ from their whole-screen entries")
        via = np.asarray(theta.predict_viability(screen), dtype=float)
        if kind == "additive":
            require(bool(np.allclose(via, np.clip(expit(got), 0.01, 0.99), rtol=1e-12, atol=0)), "big.viability.logistic_clip", "viability is not clip(expit(mean)) on a long screen")
        else:
            require(bool(np.all((via >= 0.01) & (via <= 0.99))), "big.viability.range", "viability outside [.01,.99] on a long screen")
    return {"nontrivial": True, "labels": ["big", kind, "rows*D>=2^%d" % int(np.log2(rows * D))], "counts": {"big_rows": rows}}


def _close(a, b, scale=None, rtol=1e-12):
    a = np.asarray(a, dtype=float)
    b = np.asarray(b, dtype=float)
    if a.shape != b.shape:
        return False
    tol = rtol * (np.abs(b) if scale is None else scale) + 1e-300
    both_nan = np.isnan(a) & np.isnan(b)
    same_inf = np.isinf(a) & np.isinf(b) & (np.sign(a) == np.sign(b))
    with np.errstate(invalid="ignore"):
        ok = (np.abs(a - b) <= tol) | both_nan | same_inf
    return bool(np.all(ok))


def _snapshot(theta, screen):
    d = {}
    for k, v in vars(theta).items():
        d[k] = copy.deepcopy(v)
    arrs = [np.array(screen.treatment_ids, copy=True), np.array(screen.sample_ids, copy=True), np.array(screen.observations, copy=True), np.array(screen.observation_mask, copy=True), np.array(screen.treatment_doses, copy=True)]
    return d, arrs


def _unchanged(theta, screen, snap):
    d, arrs = snap
    for k, v in vars(theta).items():
        if isinstance(v, np.ndarray):
            if not S.same_bits(v, d[k]):
                return "parameter %s was mutated" % k
        elif isinstance(v, dict):
            if v != d[k]:
                return "table %s was mutated" % k
        else:
            if not (v == d[k] or (v != v and d[k] != d[k])):
                return "parameter %s was mutated" % k
    cur = [screen.treatment_ids, screen.sample_ids, screen.observations, screen.observation_mask, screen.treatment_doses]
    for name, a, b in zip(["treatment_ids", "sample_ids", "observations", "observation_mask", "treatment_doses"], cur, arrs):
        a = np.asarray(a)
        if a.dtype.kind == "f":
            if not S.same_bits(a, b):
                return "screen.%s was mutated" % name
        elif not np.array_equal(a, b):
            return "screen.%s was mutated" % name
    return None


def _oracle_mean(p, sid, tid):
    """closed form from the documented model; control (-1) contributes nothing."""
    W = np.array(p["W"], dtype=float).reshape(len(p["W"]), -1)
    V2 = np.array(p["V2"], dtype=float).reshape(len(p["V2"]), -1)
    out = np.zeros(len(sid))
    scale = np.zeros(len(sid))
    for r, (s, ts) in enumerate(zip(sid, tid)):
        real = [int(t) for t in ts if t != -1]
        terms = []
        if p["kind"] == "additive":
            V1 = np.array(p["V1"], dtype=float).reshape(len(p["V1"]), -1)
            terms += [float(p["alpha"]), float(p["W0"][s])]
            for t in real:
                terms.append(float(p["V0"][t]))
                terms += list(W[s] * V1[t])
        if len(real) == 2:
            terms += list(W[s] * V2[real[0]] * V2[real[1]])
        out[r] = float(np.sum(terms)) if terms else 0.0
        scale[r] = float(np.sum(np.abs(terms))) if terms else 0.0
    return out, scale


def check_case(case):
    if "kind_big" in case:
        return _check_big(case)
    from batchie.models import main as mm

    sc = case["screen"]
    kind = case["kind"]
    tm, sm = S.space_mappings(sc["ns"], sc["nt"])
    screen = S.build_screen(sc, treatment_mapping=tm, sample_mapping=sm)
    n = screen.size
    sid = np.asarray(screen.sample_ids).astype(int)
    tid = np.asarray(screen.treatment_ids).astype(int)
    sel = np.array(case["select"], dtype=bool)
    rng = np.random.default_rng(case["perm_seed"])
    perm = rng.permutation(n)
    rows = sc["rows"]
    permuted = S.build_screen(dict(sc, rows=[rows[i] for i in perm]), treatment_mapping=tm, sample_mapping=sm)
    swapped = S.build_screen(dict(sc, rows=[dict(r, t=r["t"][::-1], d=r["d"][::-1]) for r in rows]), treatment_mapping=tm, sample_mapping=sm)
    holder = S.build_holder(case["thetas"])
    if case["perm_seed"] % 3:
        # the table is a dict: its insertion order (sorted, as one add_observations call leaves it, or any other, as several calls do)
        # is not part of a sample's parameters
        for th_ in holder.thetas:
            tab_ = getattr(th_, "single_effect_lookup", None)
            if isinstance(tab_, dict) and len(tab_) > 1:
                items_ = list(tab_.items())
                order_ = np.random.default_rng(case["perm_seed"]).permutation(len(items_))
                tab_.clear()
                tab_.update([items_[i_] for i_ in order_])
    if case.get("int_table"):
        # the same table values, whole numbers written as Python ints (1 instead of 1.0): equal parameters, another representation
        for th_ in holder.thetas:
            tab_ = getattr(th_, "single_effect_lookup", None)
            if isinstance(tab_, dict):
                for k_, v_ in list(tab_.items()):
                    if float(v_) == int(v_):
                        tab_[k_] = int(v_)
    with np.errstate(all="ignore"):
        for p, theta in zip(case["thetas"], holder.thetas):
            snap = _snapshot(theta, screen)
            mean = np.asarray(theta.predict_conditional_mean(screen), dtype=float)
            via = np.asarray(theta.predict_viability(screen), dtype=float)
            var = np.asarray(theta.predict_conditional_variance(screen), dtype=float)
            require(mean.shape == (n,) and via.shape == (n,), "shape", "prediction arrays do not have one entry per experiment")
            # closed form
            om, oscale = _oracle_mean(p, sid, tid)
            finite = np.isfinite(om)
            require(_close(mean[finite], om[finite], scale=oscale[finite] + 1e-300), "mean.closed_form", lambda: "modelled mean %r, closed form %r (rows %r)" % (mean.tolist(), om.tolist(), tid.tolist()))
            # variance
            require(var.shape == (n,) and np.all(var == 1.0 / p["precision"]) and np.all(var > 0), "variance.reciprocal_precision", lambda: "variance %r, precision %r" % (var.tolist(), p["precision"]))
            # viability link
            if kind == "additive":
                require(S.same_bits(via, np.clip(expit(mean), 0.01, 0.99)), "viability.logistic_clip", lambda: "viability %r is not clip(expit(mean)) %r" % (via.tolist(), np.clip(expit(mean), 0.01, 0.99).tolist()))
            else:
                tab = {(int(c), int(t)): float(x) for c, t, x in p["table"]}
                se = np.array([tab[(int(s), int(a))] * tab[(int(s), int(b))] for s, (a, b) in zip(sid, tid)])
                exp_v = np.clip(np.exp(mean) * np.clip(se, 0.01, 0.99), 0.01, 0.99)
                require(np.all((via >= 0.01) & (via <= 0.99)), "viability.range", lambda: "viability outside [.01,.99]: %r" % via.tolist())
                require(_close(via, exp_v, rtol=1e-9), "viability.interaction_relation", lambda: "viability %r, exp(mean)*clip(single effects) %r" % (via.tolist(), exp_v.tolist()))
            for name, f, full in (("mean", theta.predict_conditional_mean, mean), ("viability", theta.predict_viability, via), ("variance", theta.predict_conditional_variance, var)):
                # subset
                if sel.any():
                    got = np.asarray(f(screen.subset(sel)), dtype=float)
                    require(_close(got, full[sel]), name + ".subset", lambda: "%s on subset %r, whole-screen entries %r" % (name, got.tolist(), full[sel].tolist()))
                # permutation
                got = np.asarray(f(permuted), dtype=float)
                require(_close(got, full[perm]), name + ".row_order", lambda: "%s not equivariant under row permutation" % name)
                # column swap
                got = np.asarray(f(swapped), dtype=float)
                # swapping the columns re-associates products/sums: the mean may move by rounding error proportional to the size of
                # its terms (oscale); viability has slope <= 1 in the mean, so the same absolute tolerance applies to it
                swap_scale = None if name == "variance" else (oscale + np.abs(full) + 1e-300)
                require(_close(got, full, scale=swap_scale), name + ".column_swap", lambda: "%s changes when the treatment columns are swapped: %r vs %r (ids %r)" % (name, got.tolist(), full.tolist(), tid.tolist()))
            # control neutrality
            for r in range(n):
                a, b = tid[r]
                if a == -1 and b == -1:
                    expect = float(p["alpha"]) + float(p["W0"][sid[r]]) if kind == "additive" else 0.0
                    require(_close(mean[r], expect), "control.pair_is_intercept", lambda: "(ctl,ctl) row predicts %r, sample intercept is %r" % (mean[r], expect))
            if kind == "additive":
                # arity-1 twin on the same mapping: (t, ctl) / (ctl, t) -> [t];  (ctl, ctl) -> [ctl]
                single_rows = [r for r in range(n) if (tid[r] == -1).sum() >= 1]
                if single_rows:
                    def one_t(r):
                        j = 0 if tid[r][0] != -1 else 1
                        return [rows[r]["t"][j]], [rows[r]["d"][j]]

                    one = S.build_screen(
                        {"arity": 1, "control": "ctl", "observed": sc["observed"], "rows": [dict(rows[r], t=one_t(r)[0], d=one_t(r)[1]) for r in single_rows]},
                        treatment_mapping=tm,
                        sample_mapping=sm,
                    )
                    got = np.asarray(theta.predict_conditional_mean(one), dtype=float)
                    require(_close(got, mean[single_rows], scale=oscale[single_rows] + 1e-300), "control.pair_equals_single_agent", lambda: "arity-1 prediction %r differs from the prediction of the same experiments written as pairs with control %r (ids %r)" % (got.tolist(), mean[single_rows].tolist(), np.asarray(one.treatment_ids).tolist()))
                    om1, os1 = _oracle_mean(p, np.asarray(one.sample_ids).astype(int), np.asarray(one.treatment_ids).astype(int))
                    require(_close(got, om1, scale=os1 + 1e-300), "mean.closed_form.arity1", lambda: "arity-1 modelled mean %r, closed form %r" % (got.tolist(), om1.tolist()))
                    gv = np.asarray(theta.predict_viability(one), dtype=float)
                    require(_close(gv, via[single_rows], rtol=1e-9), "control.pair_equals_single_agent_viability", "arity-1 viability differs from the pair-with-control viability")
                    require(S.same_bits(gv, np.clip(expit(got), 0.01, 0.99)), "viability.logistic_clip.arity1", "arity-1 viability is not clip(expit(mean))")
                    if len(single_rows) > 1:
                        half = np.arange(len(single_rows)) % 2 == 0
                        require(_close(np.asarray(theta.predict_conditional_mean(one.subset(half)), dtype=float), got[half]), "mean.subset.arity1", "arity-1 prediction on a subset differs from the whole-screen entries")
            msg = _unchanged(theta, screen, snap)
            require(msg is None, "purity", lambda: msg)

        # a prediction depends only on the experiment's own sample and non-control treatments: making the parameters of ONE treatment
        # non-finite must leave every experiment that does not contain that treatment bit-for-bit unchanged (control slots included)
        p0 = case["thetas"][0]
        base_mean = np.asarray(holder.thetas[0].predict_conditional_mean(screen), dtype=float)
        base_via = np.asarray(holder.thetas[0].predict_viability(screen), dtype=float)
        for t_star in sorted({len(p0["V2"]) - 1, case["perm_seed"] % len(p0["V2"])}):
            for bad in (float("inf"), float("nan")):
                q = copy.deepcopy(p0)
                for key in ("V2", "V1"):
                    if key in q:
                        q[key][t_star] = [bad for _ in q[key][t_star]]
                if "V0" in q:
                    q["V0"][t_star] = -bad
                tq = S.build_theta(q)
                unaffected = ~np.any(tid == t_star, axis=1)
                if not unaffected.any():
                    continue
                gm = np.asarray(tq.predict_conditional_mean(screen), dtype=float)
                require(S.same_bits(gm[unaffected], base_mean[unaffected]), "mean.other_treatments_parameters_irrelevant", lambda: "with the parameters of treatment %d set to %r, experiments that do not contain it predict %r instead of %r (ids %r)" % (t_star, bad, gm[unaffected].tolist(), base_mean[unaffected].tolist(), tid[unaffected].tolist()))
                try:
                    gv = np.asarray(tq.predict_viability(screen), dtype=float)
                except KeyError:
                    gv = None
                if gv is not None:
                    require(S.same_bits(gv[unaffected], base_via[unaffected]), "viability.other_treatments_parameters_irrelevant", lambda: "with the parameters of treatment %d set to %r, the viability of experiments that do not contain it changes" % (t_star, bad))

        if kind != "additive" and case["thetas"][0]["table"]:
            # the single-effect table of a sample is the model's own dict, which the model updates IN PLACE when it receives
            # further observations: the same screen / subset objects predicted again must follow the table as it is now
            p0, theta0 = case["thetas"][0], holder.thetas[0]
            sub = screen.subset(sel) if sel.any() else None
            theta0.predict_viability(screen)
            if sub is not None:
                theta0.predict_viability(sub)
            tab2 = {(int(c), int(t)): (float(x) if int(t) == -1 else float(np.clip(1.02 - float(x), 0.02, 1.0))) for c, t, x in p0["table"]}
            theta0.single_effect_lookup.update(tab2)
            mean0 = np.asarray(theta0.predict_conditional_mean(screen), dtype=float)
            se2 = np.array([tab2[(int(s_), int(a_))] * tab2[(int(s_), int(b_))] for s_, (a_, b_) in zip(sid, tid)])
            exp2 = np.clip(np.exp(mean0) * np.clip(se2, 0.01, 0.99), 0.01, 0.99)
            via2 = np.asarray(theta0.predict_viability(screen), dtype=float)
            require(_close(via2, exp2, rtol=1e-9), "viability.follows_updated_table", lambda: "after the sample's single-effect table was updated in place, viability on the same screen object is %r, exp(mean)*clip(single effects) with the current table %r" % (via2.tolist(), exp2.tolist()))
            if sub is not None:
                got = np.asarray(theta0.predict_viability(sub), dtype=float)
                require(_close(got, exp2[sel], rtol=1e-9), "viability.follows_updated_table.subset", "after the table was updated in place, viability on the same subset object does not follow the current table")
            stacked = np.asarray(mm.predict_viability_all(screen=screen, thetas=holder), dtype=float)
            if not np.isnan(stacked).any():
                require(_close(stacked[0], exp2, rtol=1e-9), "viability_all.follows_updated_table", "predict_viability_all row 0 does not follow the sample's current table")

        # stacked / averaged helpers
        for name, all_f, avg_f, one_f in (
            ("mean", mm.predict_mean_all, mm.predict_mean_avg, lambda t, s: t.predict_conditional_mean(s)),
            ("viability", mm.predict_viability_all, mm.predict_viability_avg, lambda t, s: t.predict_viability(s)),
            ("variance", mm.predict_variance_all, None, lambda t, s: t.predict_conditional_variance(s)),
        ):
            each = [np.asarray(one_f(t, screen), dtype=float) for t in holder.thetas]
            if any(np.isnan(e).any() for e in each):
                continue
            stacked = np.asarray(all_f(screen=screen, thetas=holder), dtype=float)
            require(stacked.shape == (len(each), n), name + "_all.shape", lambda: "%s_all shape %r, expected %r" % (name, stacked.shape, (len(each), n)))
            for k_, e in enumerate(each):
                require(_close(stacked[k_], e), name + "_all.rows_in_holder_order", lambda: "%s_all row %d is not sample %d's own prediction" % (name, k_, k_))
            if avg_f is not None:
                avg = np.asarray(avg_f(screen=screen, thetas=holder), dtype=float)
                ref = np.mean(np.stack(each), axis=0)
                sc_ = np.sum(np.abs(np.stack(each)), axis=0) / len(each) + 1e-300
                require(_close(avg, ref, scale=sc_, rtol=1e-12), name + "_avg.exact_mean", lambda: "%s_avg %r, mean of the per-sample predictions %r" % (name, avg.tolist(), ref.tolist()))

        # NaN predictions make the helpers raise
        bad = copy.deepcopy(case["thetas"][0])
        bad["W"][0][0] = float("nan")
        bad["precision"] = float("nan")
        bh = S.build_holder([bad])
        nan_mean = np.isnan(np.asarray(bh.thetas[0].predict_conditional_mean(screen), dtype=float)).any()
        for name, f, expect_raise in (("mean_all", mm.predict_mean_all, nan_mean), ("mean_avg", mm.predict_mean_avg, nan_mean), ("variance_all", mm.predict_variance_all, True)):
            if not expect_raise:
                continue
            try:
                f(screen=screen, thetas=bh)
            except ValueError:
                continue
            raise Violation("helpers.nan_raises." + name, "predict_%s returned although a prediction is NaN" % name)

    # a plate view that was predicted on and then GROWN in place (Plate.merge): its predictions are those of its current rows
    grown = S.build_screen(sc, treatment_mapping=tm, sample_mapping=sm)
    pls = sorted(grown.plates, key=lambda p_: int(p_.plate_id))
    if len(pls) >= 2:
        with np.errstate(all="ignore"):
            th0 = holder.thetas[0]
            whole = np.asarray(th0.predict_conditional_mean(grown), dtype=float)
            pa, pb = pls[case["perm_seed"] % len(pls)], pls[(case["perm_seed"] // 3 + 1) % len(pls)]
            if pa is not pb and int(pa.plate_id) != int(pb.plate_id):
                th0.predict_conditional_mean(pa), th0.predict_viability(pa), pa.size
                # ... in between, the collection helpers are asked for this very plate with a collection that holds an unusable
                # sample (NaN parameters: they raise part-way through); the plate is used again afterwards
                bad_ = copy.deepcopy(case["thetas"][0])
                bad_["W"][0][0] = float("nan")
                bad_["precision"] = float("nan")
                mixed_ = S.build_holder([case["thetas"][0], bad_] + list(case["thetas"][1:2]))
                for f_ in (mm.predict_mean_all, mm.predict_viability_all, mm.predict_mean_avg, mm.predict_viability_avg, mm.predict_variance_all):
                    try:
                        f_(screen=pa, thetas=mixed_)
                    except Exception:  # noqa: whatever a failing helper raises, the plate and the samples are used again below
                        pass
                pa.merge(pb)
                now = np.asarray(pa.selection_vector)
                got = np.asarray(th0.predict_conditional_mean(pa), dtype=float)
                require(got.shape == (int(now.sum()),) and _close(got, whole[now]), "mean.plate_after_merge", lambda: "a plate predicted on, merged with another plate and predicted on again gives %r; the whole-screen entries of its current rows are %r" % (got.tolist(), whole[now].tolist()))
                allm = np.asarray(mm.predict_mean_all(screen=pa, thetas=holder), dtype=float)
                if not np.isnan(allm).any():
                    require(allm.shape == (len(holder.thetas), int(now.sum())), "mean_all.plate_after_merge", lambda: "predict_mean_all on a merged plate has shape %r for %d rows" % (allm.shape, int(now.sum())))

    # views whose selection changes IN PLACE between two predictions: the observed-part view of a screen on which a plate is then
    # revealed (it shares the screen's mask), and a view made from a caller's mask that the caller then refills
    alias = S.build_screen(sc, treatment_mapping=tm, sample_mapping=sm)
    with np.errstate(all="ignore"):
        th0 = holder.thetas[0]
        whole_a = np.asarray(th0.predict_conditional_mean(alias), dtype=float)
        ov = alias.subset_observed()
        un_pl = [p_ for p_ in alias.plates if not bool(np.any(p_.observation_mask))]
        if ov is not None and un_pl:
            th0.predict_conditional_mean(ov), th0.predict_viability(ov)
            sel_ = np.asarray(un_pl[case["perm_seed"] % len(un_pl)].selection_vector)
            alias.set_observed(sel_, np.full(int(sel_.sum()), 0.5))
            now = np.asarray(ov.selection_vector).copy()
            got = np.asarray(th0.predict_conditional_mean(ov), dtype=float)
            require(got.shape == (int(now.sum()),) and _close(got, whole_a[now]), "mean.view_after_reveal", lambda: "the observed-part view, predicted on, then a plate revealed on its screen, predicted on again: %d values for %d selected rows; values %r, whole-screen entries %r" % (got.size, int(now.sum()), got.tolist()[:6], whole_a[now].tolist()[:6]))
            var_ = np.asarray(th0.predict_conditional_variance(ov), dtype=float)
            require(var_.shape == got.shape, "variance.view_after_reveal", lambda: "variance has %d entries for %d selected rows" % (var_.size, int(now.sum())))
        if n >= 2:
            k_ = 1 + case["perm_seed"] % (n - 1)
            mine = np.zeros(n, dtype=bool)
            mine[:k_] = True
            v_ = alias.subset(mine)
            th0.predict_conditional_mean(v_)
            mine[:] = False
            mine[n - k_ :] = True  # the caller reuses its mask array for the next selection (same number of rows)
            now = np.asarray(v_.selection_vector).copy()
            got = np.asarray(th0.predict_conditional_mean(v_), dtype=float)
            require(got.shape == (int(now.sum()),) and _close(got, whole_a[now]), "mean.view_after_mask_reuse", lambda: "a view made from a caller's mask, predicted on, the mask refilled by the caller, predicted on again gives %r; the whole-screen entries of the rows it selects now are %r" % (got.tolist()[:6], whole_a[now].tolist()[:6]))

    # re-entrancy: in the middle of predicting the whole screen another prediction (a sub-view, another sample) runs to completion
    # - a callback, a signal handler, another thread scheduled there; the interrupted prediction must still be right
    if n >= 2 and len(holder.thetas) >= 1 and case["perm_seed"] % 3 == 0:
        from vf import interrupt

        with np.errstate(all="ignore"):
            th0, th1 = holder.thetas[0], holder.thetas[-1]
            k_sub = 1 + case["perm_seed"] % (n - 1)
            sub_sel = np.zeros(n, dtype=bool)
            sub_sel[:k_sub] = True
            sub_view = alias.subset(sub_sel)
            want_whole = np.asarray(th0.predict_conditional_mean(alias), dtype=float)
            want_sub = np.asarray(th1.predict_conditional_mean(sub_view), dtype=float)
            for point in range(1 + case["perm_seed"] % 2, 160, 2):
                got_w, got_s, fired = interrupt.reentered_at(lambda: np.asarray(th0.predict_conditional_mean(alias), dtype=float), point, lambda: np.asarray(th1.predict_conditional_mean(sub_view), dtype=float))
                if not fired:
                    break
                require(got_w.shape == want_whole.shape and S.same_bits(got_w, want_whole), "mean.reentrant", lambda: "the whole-screen prediction, during which (at its line event %d) another prediction of %d rows ran, gives %r; undisturbed it gives %r" % (point, k_sub, got_w.tolist()[:6], want_whole.tolist()[:6]))
                require(got_s is not None and S.same_bits(got_s, want_sub), "mean.reentrant_inner", lambda: "a prediction run in the middle of another one (line event %d) gives %r; on its own %r" % (point, got_s.tolist()[:6], want_sub.tolist()[:6]))

    c0 = bool(np.any(tid[:, 0] == -1))
    c1 = bool(np.any(tid[:, 1] == -1))
    combo = bool(np.any((tid != -1).all(axis=1)))
    labels = [kind]
    if np.any((tid == -1).all(axis=1)):
        labels.append("ctl-ctl-row")
    if combo:
        labels.append("true-combination")
    return {"nontrivial": c0 and c1 and combo, "labels": labels}
