"""Import batchie from the *working tree* (BATCHIE_REPO, default /repo), never from an installed copy."""
import importlib.util
import os
import sys

REPO = os.path.abspath(os.environ.get("BATCHIE_REPO", "/repo"))
SRC = os.path.join(REPO, "src")
ORCH = os.path.join(REPO, "nextflow", "scripts", "batchie.py")


class HarnessError(Exception):
    """The harness could not do its job (exit 2). Never reported as a violation."""


def activate():
    os.environ.setdefault("OMP_NUM_THREADS", "1")
    os.environ.setdefault("OPENBLAS_NUM_THREADS", "1")
    os.environ.setdefault("MKL_NUM_THREADS", "1")
    # guard for (currently nonexistent) verification hooks in the repository
    os.environ.setdefault("BATCHIE_VERIF", "1")
    deps = os.path.join(os.path.dirname(os.path.dirname(os.path.abspath(__file__))), ".deps")
    if os.path.isdir(deps) and deps not in sys.path:
        sys.path.append(deps)
    while SRC in sys.path:
        sys.path.remove(SRC)
    sys.path.insert(0, SRC)
    for name in list(sys.modules):
        if name == "batchie" or name.startswith("batchie."):
            del sys.modules[name]
    if os.environ.get("VERIF_WEAK_HASH") == "1":
        _install_weak_hashes()
    if os.environ.get("VERIF_FAST_CLOCK") == "1":
        _install_fast_clock()
    try:
        import batchie  # noqa
    except Exception as e:  # pragma: no cover
        raise HarnessError("cannot import batchie from %s: %r" % (SRC, e))
    f = os.path.realpath(batchie.__file__)
    if not f.startswith(os.path.realpath(SRC) + os.sep):
        raise HarnessError("batchie imported from %s, not from %s" % (f, SRC))
    import logging

    if os.environ.get("VERIF_LOGGING") == "debug":
        # (process-configuration sweep) the package logs at DEBUG level into a sink instead of being silenced
        lg = logging.getLogger("batchie")
        lg.setLevel(logging.DEBUG)
        lg.addHandler(logging.NullHandler())
        lg.propagate = False
    else:
        logging.disable(logging.CRITICAL)
    import warnings

    warnings.filterwarnings("ignore")
    return batchie


_clock = [False]


def _install_fast_clock():
    """(process-configuration sweep) the harness owns the clock: while code of the tree under test is the caller, every reading of
    time.time / monotonic / perf_counter (and their _ns forms) is 61 seconds later than the previous one (on top of real time).
    A computation is a function of its inputs, not of how long it takes: code that consults the clock for logging or progress
    reporting is unaffected, code whose RESULT changes after "a minute" shows it within a few readings.  Callers outside the tree
    (tqdm, hypothesis, the harness) get the real clock.  Installed before batchie is imported (from-imports bind the wrappers)."""
    if _clock[0]:
        return
    _clock[0] = True
    import time as _time

    src = os.path.realpath(SRC) + os.sep
    orch = os.path.realpath(ORCH)
    jumps = [0]

    def from_tree():
        fn = sys._getframe(2).f_code.co_filename
        return fn == orch or fn.startswith(src) or os.path.realpath(fn).startswith(src)

    def wrap(orig, scale):
        def fast(*a, **k):
            r = orig(*a, **k)
            if from_tree():
                jumps[0] += 1
                return r + type(r)(61 * jumps[0] * scale)
            return r

        fast.__name__ = getattr(orig, "__name__", "fast")
        fast.__wrapped__ = orig
        return fast

    for n_, scale in (("time", 1), ("monotonic", 1), ("perf_counter", 1), ("time_ns", 10**9), ("monotonic_ns", 10**9), ("perf_counter_ns", 10**9)):
        if hasattr(_time, n_):
            setattr(_time, n_, wrap(getattr(_time, n_), scale))


_weak = [False]


def _install_weak_hashes():
    """(process-configuration sweep) collision injection: while code of the tree under test is the caller, the non-cryptographic
    hash functions it can reach - builtins.hash, zlib/binascii crc32 and adler32, pandas' row hashes - keep only their three lowest
    bits.  They remain deterministic functions of their argument (equal inputs, equal hashes), which is all a hash promises; code
    that is right for every input cannot depend on two DIFFERENT inputs having different hashes, but with full-width hashes such a
    dependence shows only on inputs no search will meet (2^-32 .. 2^-64 per pair).  Installed before batchie is imported, so that
    `from zlib import crc32` binds the wrapper too; callers outside the tree (hypothesis, pandas, numpy) get the real functions."""
    if _weak[0]:
        return
    _weak[0] = True
    import binascii
    import builtins
    import zlib

    src = os.path.realpath(SRC) + os.sep
    orch = os.path.realpath(ORCH)

    def from_tree(depth=2):
        f = sys._getframe(depth)
        fn = f.f_code.co_filename
        return fn == orch or fn.startswith(src) or os.path.realpath(fn).startswith(src)

    def wrap_int(orig):
        def weak(*a, **k):
            r = orig(*a, **k)
            return (r & 7) if from_tree() else r

        weak.__name__ = getattr(orig, "__name__", "weak")
        weak.__wrapped__ = orig
        return weak

    builtins.hash = wrap_int(builtins.hash)
    for m in (zlib, binascii):
        for n in ("crc32", "adler32", "crc_hqx"):
            if hasattr(m, n):
                setattr(m, n, wrap_int(getattr(m, n)))
    try:
        import numpy as np
        import pandas.core.util.hashing as ph
        import pandas.util as pu
    except Exception as e:  # pragma: no cover
        raise HarnessError("cannot prepare weak pandas hashes: %r" % (e,))

    def wrap_arr(orig):
        def weak(*a, **k):
            r = orig(*a, **k)
            return (r & np.uint64(7)) if from_tree() else r

        weak.__name__ = getattr(orig, "__name__", "weak")
        weak.__wrapped__ = orig
        return weak

    for n in ("hash_pandas_object", "hash_array", "hash_tuples"):
        if hasattr(ph, n):
            w = wrap_arr(getattr(ph, n))
            setattr(ph, n, w)
            if hasattr(pu, n):
                setattr(pu, n, w)


_orch_counter = [0]


_orch_code = []


def load_orchestrator():
    """Execute nextflow/scripts/batchie.py (compiled once per process, no bytecode written) into a fresh module object."""
    import logging
    import types

    if not os.path.exists(ORCH):
        raise HarnessError("orchestration script missing: %s" % ORCH)
    try:
        if not _orch_code:
            with open(ORCH, "rb") as f:
                _orch_code.append(compile(f.read(), ORCH, "exec"))
        _orch_counter[0] += 1
        mod = types.ModuleType("_batchie_orchestrator_")
        mod.__file__ = ORCH
        exec(_orch_code[0], mod.__dict__)
    except Exception as e:
        raise HarnessError("cannot load orchestration script: %r" % (e,))
    lg = getattr(mod, "logger", None)
    if isinstance(lg, logging.Logger):
        lg.handlers[:] = []
        lg.addHandler(logging.NullHandler())
        lg.propagate = False
    return mod


def attach(obj, name):
    """getattr that turns a vanished internal name into a harness error (exit 2), not a violation."""
    try:
        return getattr(obj, name)
    except AttributeError:
        raise HarnessError("internal name %r not found on %r (refactored?)" % (name, obj))
