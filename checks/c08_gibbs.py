"""C08 - each Gibbs block draws from the exact full conditional of the documented model."""
import numpy as np
from hypothesis import strategies as st

from vf import gibbs_oracle as G
from vf import strategies as S
from vf.engine import Violation, require
from vf.tree import HarnessError, attach

ID = "C08"
LEVEL = "exploration"
TECHNIQUE = "Hypothesis-generated datasets and sampler histories; every random draw is intercepted and its parameters compared with an independently derived full conditional computed from the live state; exact affine check of the MVN routine"
RULE = (
    "observed arity-2 datasets (1..5 samples, 2..7 treatments + control, 3..30 rows mixing combinations and single-agent rows, treatments seen only in the first, only "
    "in the second or in both positions, samples/treatments of the experiment space without data), D in 1..4 (sometimes 7, 8, 12), 2..6 sampler steps (plus fixed long chains: D 16..24, 60 steps on a small dataset, where the embedding scales reach their upper bound) under the default options (the generator handed over by set_rng, or in one case of four the one the constructor defaults leave), with "
    "reset_model calls and a second batch of observations between steps (the histories sampling.sample and repeated training produce); per step all 12 blocks are observed. Non-trivial = a checked draw for a coordinate with >=1 observation while some embedding is non-zero (from step 2 on); distinct = distinct "
    "case JSON; per-block draw counts are in counters."
    ' Also: models holding 2**16+1 .. 2**18+5 observations (thorough up to 2**20+3): fitted-values and export clauses after every whole step.'
    ' Also: growing models (batches of 100 .. 200000 observations between steps).'
    ' Also: production-size models with 50..95 % inert (clipped) wells, intercept clause included.'
    ' Also: chains continued on a deepcopy / pickle copy of the model.'
)
ASSUMPTIONS = [
    "conjugacy is asserted for observation noise, intercept scale tau0, embedding scales tau (multiplicative gamma process) and for the global treatment scales eta0/eta1/eta2 (given the local scales the sampler holds after the block: the prior precision of V[m] is phi[m]*eta, which the Gaussian-block oracle already pins); the local scales phi* and the auxiliary variables are checked for order, bounds and finiteness only (their hyper-prior is not documented beyond the code)",
    "the gamma rate may carry the code's +1e-3 stabiliser (both b and b+1e-3 accepted)",
    "rows with the same non-control treatment in both positions are excluded (the mean is quadratic in that embedding: no Gaussian full conditional exists)",
    "tolerance 1e-3 x (|mean|+sd) + 1e-5 (vector blocks: (1e-3 + 1e-6 x cond(Q)) x (|mean|+sd), capped at 0.2): the sampler keeps parameters, design matrices and fitted values in float32; numpy's normal/gamma generators are trusted given their parameters",
    "block methods and training arrays are attached by name on the wrapped implementation (a rename is a harness error, exit 2)",
]


def budgets(tier):
    if tier == "quick":
        return {"examples": 500, "max_s": 80, "shrink_s": 25, "shards": 1}
    return {"examples": 3000, "max_s": 900, "shrink_s": 120, "shards": 16}


BLOCKS = ["_alpha_step", "_W0_step", "_V0_step", "_W_step", "_V2_step", "_V1_step", "_prec_W0_step", "_prec_V0_step", "_prec_obs_step", "_prec_V2_step", "_prec_V1_step", "_prec_W_step"]


@st.composite
def _case(draw):
    sc = draw(S.simple_screen(n_samples=(1, 5), n_treat=(2, 7), n_rows=(3, 30), n_plates=(1, 2), allow_same=False, obs=st.floats(min_value=0.02, max_value=0.98)))
    return {
        "screen": sc,
        "extra_samples": draw(st.integers(0, 2)),
        "extra_treatments": draw(st.integers(0, 2)),
        "D": draw(st.sampled_from([1, 2, 2, 3, 3, 4, 7, 8, 12])),
        "steps": draw(st.integers(2, 6)),
        # history between the steps: reset_model (as sampling.sample does before every chain) and a second batch of observations
        # ("shrink": the sample embeddings are scaled down to near zero - where the sampler drifts when the embedding scales grow - and the
        # fitted values are rebuilt, so that states with very large embedding scales are reached within a few steps)
        "events": draw(st.lists(st.sampled_from(["none", "none", "none", "reset", "add", "shrink"]), min_size=6, max_size=6)),
        "first_batch": draw(st.integers(1, 30)),
        "seed": draw(st.integers(0, 2**31 - 1)),
        # one case in four: the model keeps the generator its constructor's defaults give it (no set_rng)
        "default_generator": draw(st.integers(0, 3)) == 0,
    }


def strategy(tier):
    return _case()


_LONG_SCREEN = {"arity": 2, "control": "ctl", "ns": 2, "nt": 6, "observed": [], "rows": [{"s": "s0", "p": "p0", "t": ["t0", "t1"], "d": [1.0, 1.0], "o": 0.3}, {"s": "s0", "p": "p0", "t": ["t1", "t2"], "d": [1.0, 1.0], "o": 0.5}, {"s": "s1", "p": "p0", "t": ["t0", "t2"], "d": [1.0, 1.0], "o": 0.7}, {"s": "s1", "p": "p0", "t": ["t2", "t1"], "d": [2.0, 1.0], "o": 0.2}, {"s": "s0", "p": "p0", "t": ["t0", "ctl"], "d": [1.0, 0.0], "o": 0.6}, {"s": "s1", "p": "p0", "t": ["ctl", "t1"], "d": [0.0, 1.0], "o": 0.4}, {"s": "s0", "p": "p0", "t": ["t2", "t0"], "d": [1.0, 2.0], "o": 0.8}, {"s": "s1", "p": "p0", "t": ["t1", "t0"], "d": [1.0, 1.0], "o": 0.35}]}


def exhaustive(tier):
    # long chains with many embedding dimensions on a small dataset: the multiplicative embedding scales reach their upper bound
    # (1e6) only after some tens of sweeps - states no short history visits
    for n_, D_ in [(2**17 + 6000, 2), (2**18 + 5, 1), (2**16 + 1, 3)] + ([(3 * 2**17 + 77, 2), (2**20 + 3, 1), (2**19 - 1, 2)] if tier != "quick" else []):
        yield {"kind": "big_model", "n": n_, "D": D_, "steps": 3, "seed": n_ % 1000}
    for n_, inert_ in [(250000, 0.7), (60000, 0.95)] + ([(2**20, 0.9), (400000, 0.5)] if tier != "quick" else []):
        yield {"kind": "big_model", "n": n_, "D": 1, "steps": 2, "seed": n_ % 991, "inert": inert_}
    # chains continued on a copy of the model
    for how_, after_, n_ in [("deepcopy", 2, 400), ("pickle", 1, 900), ("deepcopy", 1, 5000)] + ([("pickle", 3, 20000), ("deepcopy", 4, 300)] if tier != "quick" else []):
        yield {"kind": "big_model", "n": n_, "D": 2, "steps": after_ + 4, "seed": n_ % 977, "copy": [how_, after_]}
    # a model that keeps growing: batches of some thousand observations between steps
    for bs_, D_ in [([3000, 3000, 2500], 2), ([5000, 70000], 1), ([1000] * 9, 2)] + ([([4096, 4096, 1], 2), ([40000, 30000, 70000, 200000], 1), ([100] * 50, 1)] if tier != "quick" else []):
        yield {"kind": "big_model", "n": sum(bs_), "D": D_, "steps": len(bs_) + 2, "seed": sum(bs_) % 997, "batches": bs_}
    for D, seed in ([(20, 1), (20, 2), (16, 3)] if tier == "quick" else [(20, s_) for s_ in range(1, 7)] + [(16, 3), (24, 4)]):
        yield {"screen": _LONG_SCREEN, "extra_samples": 0, "extra_treatments": seed % 2, "D": D, "steps": 60, "events": ["none"] * 6, "first_batch": 30, "seed": seed, "default_generator": False}


class Recorder:
    def __init__(self, wm, counts):
        self.wm = wm
        self.block = None
        self.visited = set()
        self.failures = []
        self.in_mvn = False
        self.order = []
        self.counts = counts
        self.nontrivial_draws = 0
        self.last_c = None
        self.applied = []  # (block, coordinate, value returned by the multivariate draw)
        self.scale_draws = []  # gamma draws of the current treatment-scale block: [shape, scale, returned value]

    def fail(self, sub, msg):
        if len(self.failures) < 3:
            self.failures.append((sub, msg))

    def _nonzero_state(self, s):
        return bool(np.any(s.W != 0) or np.any(s.V2 != 0) or np.any(s.V1 != 0))

    # -- scalar normal draws
    def normal(self, loc, scale):
        if self.in_mvn or self.block is None:
            return
        b = self.block
        s = G.State(self.wm)
        loc_a, scale_a = np.asarray(loc, dtype=float), np.asarray(scale, dtype=float)
        if b in ("_W0_step", "_V0_step"):
            n = s.n_clines if b == "_W0_step" else s.n_dd
            f = G.cond_W0 if b == "_W0_step" else G.cond_V0
            if loc_a.ndim or scale_a.ndim:
                # a vectorised draw of several coordinates at once: every element is a draw of its own
                try:
                    la, sa = np.broadcast_arrays(loc_a, scale_a)
                except ValueError:
                    return self.fail(b + ".draw_shape", "scalar block drew with incompatible array parameters")
                for l_, s_ in zip(la.ravel().tolist(), sa.ravel().tolist()):
                    self.normal(l_, s_)
                return
            best = None
            for c in range(n):
                if c in self.visited:
                    continue
                kind, m, sd, nobs = f(s, c)
                err = abs(float(loc_a) - m) / (1e-3 * (abs(m) + sd) + 1e-5)
                err = max(err, abs(float(scale_a) - sd) / (1e-3 * sd))
                if best is None or err < best[0]:
                    best = (err, c, kind, m, sd, nobs)
                if err <= 1:
                    break
            if best is None:
                return self.fail(b + ".extra_draw", "more draws than coordinates in block %s" % b)
            err, c, kind, m, sd, nobs = best
            if err > 1:
                return self.fail(b + (".prior" if kind == "prior" else ".full_conditional"), "block %s: draw N(%r, %r) matches no unvisited coordinate; closest is coordinate %d with full conditional N(%r, %r) from %d observations" % (b, float(loc_a), float(scale_a), c, m, sd, nobs))
            self.visited.add(c)
            self.counts[b + (".data" if kind == "data" else ".prior")] += 1
            if kind == "data" and self._nonzero_state(s):
                self.nontrivial_draws += 1
        elif b in ("_W_step", "_V2_step", "_V1_step"):
            # prior draw for a coordinate without data: N(0, sd vector)
            n = s.n_clines if b == "_W_step" else s.n_dd
            f = {"_W_step": G.cond_W, "_V2_step": G.cond_V2, "_V1_step": G.cond_V1}[b]
            ok = False
            for c in range(n):
                if c in self.visited:
                    continue
                kind, m, sd, nobs = f(s, c)
                if kind != "prior":
                    continue
                if np.all(np.abs(loc_a) <= 1e-12) and scale_a.shape == np.shape(sd) and np.allclose(scale_a, sd, rtol=1e-3):
                    self.visited.add(c)
                    self.counts[b + ".prior"] += 1
                    ok = True
                    break
            if not ok:
                self.fail(b + ".prior", "block %s: draw N(%r, %r) is not the prior of any coordinate without data" % (b, loc_a.tolist(), scale_a.tolist()))

    # -- gamma draws
    def gamma(self, shape, scale):
        if self.block is None:
            return
        b = self.block
        if b not in ("_prec_obs_step", "_prec_W0_step", "_prec_W_step"):
            # treatment-side local / global scales: the draws are kept (with the values they return, see gamma_result) and the
            # global-scale update is checked against the state the block leaves behind (after_block)
            self.counts[b + ".shrinkage_draws"] += 1
            self.scale_draws.append([np.array(shape, dtype=float, copy=True), np.array(scale, dtype=float, copy=True), None])
            return
        s = G.State(self.wm)
        sh, sc = np.asarray(shape, dtype=float), np.asarray(scale, dtype=float)
        if sh.ndim or sc.ndim:
            return self.fail(b + ".draw_shape", "conjugate precision block drew with array parameters")
        sh, sc = float(sh), float(sc)

        def ok(exp_shape, rate):
            if abs(sh - exp_shape) > 1e-9 * max(1.0, abs(exp_shape)):
                return False
            return any(abs(sc - 1.0 / r) <= 1e-3 / r for r in (rate, rate + 1e-3))

        if b == "_prec_obs_step":
            e = G.cond_prec_obs(s)
            if 0 in self.visited:
                return self.fail(b + ".extra_draw", "observation precision drawn twice in one block")
            if not ok(*e):
                return self.fail(b + ".conjugate", "observation-noise precision drawn from Gamma(shape=%r, scale=%r); conjugate update is Gamma(shape=%r, rate=%r)" % (sh, sc, e[0], e[1]))
            self.visited.add(0)
            self.counts[b] += 1
        elif b == "_prec_W0_step":
            e = G.cond_tau0(s)
            if 0 in self.visited:
                return self.fail(b + ".extra_draw", "intercept precision drawn twice in one block")
            if not ok(*e):
                return self.fail(b + ".conjugate", "intercept-scale precision drawn from Gamma(shape=%r, scale=%r); conjugate update is Gamma(shape=%r, rate=%r)" % (sh, sc, e[0], e[1]))
            self.visited.add(0)
            self.counts[b] += 1
        else:
            for d in range(s.D):
                if d in self.visited:
                    continue
                if ok(*G.cond_delta(s, d)):
                    self.visited.add(d)
                    self.counts[b] += 1
                    return
            e = [G.cond_delta(s, d) for d in range(s.D) if d not in self.visited]
            self.fail(b + ".conjugate", "embedding-scale factor drawn from Gamma(shape=%r, scale=%r); multiplicative-gamma-process updates of the unvisited dimensions are (shape, rate) %r" % (sh, sc, e))

    def gamma_result(self, value):
        if self.block is not None and self.scale_draws and self.scale_draws[-1][2] is None:
            self.scale_draws[-1][2] = np.array(value, dtype=float, copy=True)

    # -- multivariate normal draws
    def mvn(self, Q, mu, mu_part, chol_factor):
        b = self.block
        if b not in ("_W_step", "_V2_step", "_V1_step"):
            return
        if mu is not None or chol_factor or mu_part is None:
            return self.fail(b + ".mvn_call", "unexpected parameterisation of the multivariate normal draw")
        s = G.State(self.wm)
        n = s.n_clines if b == "_W_step" else s.n_dd
        f = {"_W_step": G.cond_W, "_V2_step": G.cond_V2, "_V1_step": G.cond_V1}[b]
        Q = np.asarray(Q, dtype=float)
        bb = np.asarray(mu_part, dtype=float)
        best = None
        for c in range(n):
            if c in self.visited:
                continue
            kind, Qo, bo, nobs = f(s, c)
            if kind != "data":
                continue
            try:
                mo = np.linalg.solve(Qo, bo)
                sd = np.sqrt(np.diag(np.linalg.inv(Qo)))
                m = np.linalg.solve(Q, bb)
            except np.linalg.LinAlgError:
                continue
            e1 = float(np.max(np.abs(Q - Qo))) / (1e-3 * max(1.0, float(np.max(np.abs(Qo)))))
            # the sampler builds Q and b from float32 arrays: a relative rounding error of ~1e-7 in Q moves Q^-1 b by about
            # cond(Q) x 1e-7 relative, so the tolerance of the mean grows with the conditioning of the block's precision matrix
            rel = min(0.2, 1e-3 + 8 * 1.2e-7 * float(np.linalg.cond(Qo)))
            e2 = float(np.max(np.abs(m - mo) / (rel * (np.abs(mo) + sd) + 1e-5)))
            err = max(e1, e2)
            if best is None or err < best[0]:
                best = (err, c, mo, sd, m, nobs, e1, e2)
            if err <= 1:
                break
        self.last_c = None
        if best is None:
            return self.fail(b + ".extra_draw", "block %s: a multivariate draw although no coordinate with data is left" % b)
        err, c, mo, sd, m, nobs, e1, e2 = best
        if err > 1:
            return self.fail(b + ".full_conditional", "block %s: draw with mean Q^-1 b = %r matches no unvisited coordinate; closest is coordinate %d (%d observations) whose full conditional has mean %r and sd %r (precision-matrix error x%.1f, mean error x%.1f of tolerance)" % (b, m.tolist(), c, nobs, mo.tolist(), sd.tolist(), e1, e2))
        self.visited.add(c)
        self.last_c = c
        self.counts[b + ".data"] += 1
        if self._nonzero_state(s):
            self.nontrivial_draws += 1


class RecGen(np.random.Generator):
    """recording proxy around a numpy Generator (for implementations that draw from the model's own generator); it IS a
    Generator, so code that normalises its argument with np.random.default_rng(rng) keeps it"""

    def __init__(self, g, rec):
        super().__init__(g.bit_generator)
        self._g = g
        self._rec = rec

    def normal(self, loc=0.0, scale=1.0, size=None):
        self._rec.normal(loc, scale)
        return self._g.normal(loc, scale, size)

    def gamma(self, shape, scale=1.0, size=None):
        self._rec.gamma(shape, scale)
        v = self._g.gamma(shape, scale, size)
        self._rec.gamma_result(v)
        return v

    def standard_normal(self, size=None, *a, **k):
        self._rec.normal(0.0, 1.0)
        return self._g.standard_normal(size, *a, **k)

def _mvn_affine_check(seed, D):
    """sample_mvn_from_precision is affine in its standard-normal input: offset Q^-1 b (resp. mu), linear part A with A A^T = Q^-1."""
    from batchie import fast_mvn

    f = attach(fast_mvn, "sample_mvn_from_precision")
    r = np.random.default_rng(seed)
    d = D + 1
    A0 = r.normal(size=(d + 2, d))
    Q = A0.T @ A0 + np.diag(10.0 ** r.uniform(-2, 2, size=d))
    b = r.normal(size=d) * 10.0 ** r.uniform(-1, 2)
    mu = r.normal(size=d)

    class Z(np.random.Generator):
        def __init__(self, zv):
            super().__init__(np.random.PCG64(0))
            self.zv = zv

        def normal(self, loc=0.0, scale=1.0, size=None):
            return self.zv.copy()

        def standard_normal(self, size=None, *a, **k):
            return self.zv.copy()

    Qinv = np.linalg.inv(Q)
    for variant in ("mu_part", "mu", "chol"):
        def call(zv):
            if variant == "mu_part":
                return np.asarray(f(Q.copy(), mu_part=b.copy(), rng=Z(zv)), dtype=float)
            if variant == "mu":
                return np.asarray(f(Q.copy(), mu=mu.copy(), rng=Z(zv)), dtype=float)
            return np.asarray(f(np.linalg.cholesky(Q), mu_part=b.copy(), chol_factor=True, rng=Z(zv)), dtype=float)

        off = call(np.zeros(d))
        exp_off = mu if variant == "mu" else Qinv @ b
        require(np.allclose(off, exp_off, rtol=1e-7, atol=1e-9 * (1 + np.max(np.abs(exp_off)))), "mvn.mean." + variant, lambda: "offset %r, expected %r" % (off.tolist(), exp_off.tolist()))
        A = np.stack([call(np.eye(d)[i]) - off for i in range(d)], axis=1)
        z0 = r.normal(size=d)
        require(np.allclose(call(z0), off + A @ z0, rtol=1e-7, atol=1e-9), "mvn.affine." + variant, "draw is not affine in the standard-normal input")
        cov = A @ A.T
        require(np.allclose(cov, Qinv, rtol=1e-6, atol=1e-8 * np.max(np.abs(Qinv))), "mvn.covariance." + variant, lambda: "A A^T = %r, Q^-1 = %r" % (cov.tolist(), Qinv.tolist()))


def _check_big_model(case):
    """a model holding a production-size number of observations (described by parameters): after every whole step the running
    fitted values are those implied by the parameters and the exported sample reproduces them (the per-block conditionals are
    decided on the small datasets; here only the clauses that are affordable at this size)"""
    from batchie.data import ExperimentSpace, Screen
    from batchie.models import sparse_combo as scm

    n, D = case["n"], case["D"]
    r = np.random.default_rng(case["seed"])
    nt, ns = 12, 5
    names = np.array(["t%02d" % i for i in range(nt)] + ["ctl"])
    a = r.integers(0, nt, size=n)
    b = (a + 1 + r.integers(0, nt, size=n)) % (nt + 1)  # another treatment, or (one row in thirteen) the control
    doses = np.where(np.stack([a, b], axis=1) == nt, 0.0, 1.0)
    obs_ = r.uniform(0.05, 0.95, size=n)
    if case.get("inert"):
        # most wells show no effect (viability at or above the upper clipping bound), as in a real screen of mostly inert compounds
        obs_ = np.where(r.uniform(size=n) < case["inert"], np.where(r.uniform(size=n) < 0.5, 1.0, 1.02), obs_)
    screen = Screen(treatment_names=np.stack([names[a], names[b]], axis=1), treatment_doses=doses, observations=obs_, observation_mask=np.ones(n, dtype=bool), sample_names=np.array(["s%d" % i for i in range(ns)])[r.integers(0, ns, size=n)], plate_names=np.array(["p%d" % i for i in range(9)])[r.integers(0, 9, size=n)], control_treatment_name="ctl")
    model = scm.SparseDrugCombo(experiment_space=ExperimentSpace.from_screen(screen), n_embedding_dimensions=D)
    model.set_rng(np.random.default_rng(case["seed"] + 1))
    wm = attach(model, "wrapped_model")
    # the observations arrive in one batch, or in several (the model keeps growing between steps)
    cuts = np.cumsum(case.get("batches") or [n]).tolist()
    require(cuts[-1] == n, "harness", "batches do not add up")
    given = 0
    for step in range(case["steps"]):
        if step < len(cuts):
            idx = np.zeros(n, dtype=bool)
            idx[given : cuts[step]] = True
            model.add_observations(screen.subset(idx))
            given = cuts[step]
            if step + 1 == case["steps"] and step + 1 < len(cuts):
                raise HarnessError("more batches than steps")
        if case.get("copy") and step == case["copy"][1]:
            # the chain is continued on a copy of the model (a snapshot taken with copy.deepcopy, a model handed to a worker
            # process through pickle): the copy is a model like any other
            import copy
            import pickle

            model = copy.deepcopy(model) if case["copy"][0] == "deepcopy" else pickle.loads(pickle.dumps(model))
            wm = attach(model, "wrapped_model")
        with np.errstate(all="ignore"):
            model.step()
        s_ = G.State(wm)
        require(s_.n == given, "big.holds_all_observations", lambda: "the model holds %d of the %d observations it was given" % (s_.n, given))
        full, n_all = screen, n
        screen, n = (full if given == n_all else full.subset(np.arange(n_all) < given)), given
        try:
            _big_step_checks(case, model, wm, s_, screen, n, step)
        finally:
            screen, n = full, n_all
    return {"nontrivial": True, "labels": ["big_model", "observations>=2^%d" % (n.bit_length() - 1)] + (["batches=%d" % len(cuts)] if len(cuts) > 1 else [])}


def _big_step_checks(case, model, wm, s_, screen, n, step):
    if True:
        mu = G.fitted(s_)
        Mu = np.asarray(wm.Mu, dtype=float)
        tol = 1e-3 * (np.abs(mu) + 1.0 / np.sqrt(s_.prec)) + 1e-4
        bad = np.flatnonzero(~(np.abs(Mu - mu) <= tol)) if Mu.shape == mu.shape else np.arange(1)
        require(Mu.shape == mu.shape and bad.size == 0, "big.fitted_values", lambda: "%d observations, step %d: the running fitted values of %d observations (first: row %d) differ from those implied by the parameters by up to %r" % (n, step + 1, bad.size, int(bad[0]), float(np.max(np.abs(Mu - mu))) if Mu.shape == mu.shape else None))
        pred = np.asarray(model.get_model_state().predict_conditional_mean(screen), dtype=float)
        bad = np.flatnonzero(~(np.abs(pred - mu) <= tol))
        require(bad.size == 0, "big.export.predicts_fitted_values", lambda: "%d observations, step %d: the exported sample's predictions for %d training experiments (first: row %d) differ from the sampler's fitted values" % (n, step + 1, bad.size, int(bad[0])))
        ybar = float(np.mean(s_.y))
        require(abs(s_.alpha - ybar) <= 1e-5 * (1 + abs(ybar)), "big._alpha_step.mean_of_observations", lambda: "%d observations, step %d: global intercept %r, mean of the transformed observations %r" % (n, step + 1, s_.alpha, ybar))
        # the stored design (sample and the two treatments of every observation) is the data that was handed over, in order
        tid, sid = np.asarray(screen.treatment_ids), np.asarray(screen.sample_ids)
        require(np.array_equal(s_.cl, sid) and np.array_equal(np.sort(np.stack([s_.a, s_.b], axis=1), axis=1), np.sort(tid, axis=1)), "big.stored_design", lambda: "%d observations, step %d: the sampler's stored sample / treatment ids are not those of the observations it was given" % (n, step + 1))


def check_case(case):
    if case.get("kind") == "big_model":
        return _check_big_model(case)
    import collections

    import numpy.random as npr

    from batchie.data import ExperimentSpace
    from batchie.models import sparse_combo as scm

    sc = case["screen"]
    ns, nt = sc["ns"] + case["extra_samples"], sc["nt"] + case["extra_treatments"]
    tm, sm = S.space_mappings(ns, nt)
    screen = S.build_screen(dict(sc, observed=sorted({r["p"] for r in sc["rows"]})), treatment_mapping=tm, sample_mapping=sm)
    D = case["D"]
    _mvn_affine_check(case["seed"], D)

    space = ExperimentSpace(treatment_mapping=tm, sample_mapping=sm, control_treatment_name="ctl")
    model = scm.SparseDrugCombo(experiment_space=space, n_embedding_dimensions=D)
    n_rows = screen.size
    events = list(case.get("events", []))
    k = n_rows if "add" not in events[: case["steps"]] else max(1, min(n_rows - 1, case.get("first_batch", n_rows))) if n_rows > 1 else n_rows
    first = np.arange(n_rows) < k
    model.add_observations(screen.subset(first))
    pending_second_batch = bool((~first).any())
    wm = attach(model, "wrapped_model")
    for name in BLOCKS + ["_reconstruct_Mu", "mcmc_step"]:
        attach(wm, name)
    for name in ("y", "cline", "dd1", "dd2", "W", "W0", "V0", "V1", "V2", "Mu", "prec", "tau", "tau0", "gam", "phi0", "phi1", "phi2", "eta0", "eta1", "eta2", "alpha"):
        attach(wm, name)
    counts = collections.Counter()
    rec = Recorder(wm, counts)

    def after_block(name):
        if rec.failures:
            sub, msg = rec.failures[0]
            raise Violation(sub, msg)
        s = G.State(wm)
        expected = {"_W0_step": s.n_clines, "_V0_step": s.n_dd, "_W_step": s.n_clines, "_V2_step": s.n_dd, "_V1_step": s.n_dd, "_prec_obs_step": 1, "_prec_W0_step": 1, "_prec_W_step": s.D}
        if name in expected:
            require(len(rec.visited) == expected[name], name + ".every_coordinate_once", lambda: "block %s drew %d of its %d coordinates" % (name, len(rec.visited), expected[name]))
        # a value drawn from a coordinate's full conditional becomes that coordinate's new state
        arr_name = {"_W_step": "W", "_V2_step": "V2", "_V1_step": "V1"}.get(name)
        for blk, c_, val in rec.applied:
            if blk == name and arr_name:
                now = np.asarray(getattr(wm, arr_name), dtype=float)[c_]
                require(bool(np.allclose(now, val, rtol=1e-5, atol=1e-6)), name + ".draw_becomes_state", lambda: "block %s: coordinate %d was drawn as %r but its state after the block is %r" % (name, c_, val.tolist(), now.tolist()))
        rec.applied = [a_ for a_ in rec.applied if a_[0] != name]
        if s.n:
            mu = G.fitted(s)
            Mu = np.asarray(wm.Mu, dtype=float)
            require(Mu.shape == mu.shape, name + ".fitted_values", "running fitted values have the wrong length")
            scale = 1e-3 * (np.abs(mu) + 1.0 / np.sqrt(s.prec)) + 1e-4
            require(bool(np.all(np.abs(Mu - mu) <= scale)), name + ".fitted_values", lambda: "after %s the running fitted values differ from those implied by the parameters by up to %r" % (name, float(np.max(np.abs(Mu - mu)))))
            if name == "_alpha_step":
                require(abs(s.alpha - float(np.mean(s.y))) <= 1e-5 * (1 + abs(float(np.mean(s.y)))), "_alpha_step.mean_of_observations", lambda: "global intercept %r, mean of the transformed observations %r" % (s.alpha, float(np.mean(s.y))))
        if name in ("_prec_V0_step", "_prec_V1_step", "_prec_V2_step") and len(rec.scale_draws) >= 2:
            # global treatment scale eta (prior precision of V[m] is phi[m]*eta): given the local scales phi THE SAMPLER HOLDS, the
            # treatments' parameters V and its auxiliary variable (the draw just before), its conjugate update is
            # Gamma((1+M)/2, rate = aux + 1/2 sum_m phi[m] V[m]^2).  Asserted only when the block's last two draws have that form.
            k_ = name[7]
            phi = np.asarray(getattr(wm, "phi" + k_), dtype=float)
            V = np.asarray(getattr(wm, "V" + k_), dtype=float)
            (sh_a, sc_a, aux), (sh_e, sc_e, _) = rec.scale_draws[-2], rec.scale_draws[-1]
            M = V.shape[0]
            if aux is not None and np.all(sh_a == 1.0) and np.all(np.abs(sh_e - 0.5 * (1 + M)) < 1e-9) and np.shape(sc_e) == np.shape(aux):
                expect = np.asarray(aux, dtype=float) + 0.5 * (phi * V**2).sum(0)
                rate = 1.0 / np.asarray(sc_e, dtype=float)
                ok_ = (np.abs(rate - expect) <= 1e-4 * (1 + np.abs(expect))) | (np.abs(rate - expect - 1e-3) <= 1e-4 * (1 + np.abs(expect)))
                require(bool(np.all(ok_)), name + ".global_scale_conditional", lambda: "block %s: the global scale was drawn with rate %r; given the local scales the sampler holds after the block, the treatments' parameters and the auxiliary draw %r the conjugate rate is %r (+1e-3 stabiliser allowed)" % (name, np.ravel(rate).tolist(), np.ravel(aux).tolist(), np.ravel(expect).tolist()))
                counts[name + ".global_scale_checked"] += 1
        if name == "_prec_W_step" and hasattr(wm, "gam"):
            # multiplicative gamma process: the embedding scales are the running products of the factors just drawn (within their bounds)
            C_ = 1.0 / np.sqrt(1 + len(wm.y))
            exp_tau = np.clip(np.cumprod(np.asarray(wm.gam, dtype=float)), C_, 1e6)
            got_tau = np.asarray(wm.tau, dtype=float)
            require(got_tau.shape == exp_tau.shape and bool(np.allclose(got_tau, exp_tau, rtol=1e-4, atol=0)), "_prec_W_step.scales_are_running_products", lambda: "after the embedding-scale block tau = %r, the running products of its factors are %r" % (got_tau.tolist(), exp_tau.tolist()))
        if name.startswith("_prec"):
            msg = G.bounds_ok(wm)
            require(msg is None, name + ".bounds", lambda: msg)

    originals = {}

    def wrap(name):
        orig = getattr(wm, name)

        def w(*a, **k):
            rec.block = name
            rec.visited = set()
            rec.scale_draws = []
            rec.order.append(name)
            try:
                return orig(*a, **k)
            finally:
                rec.block = None
                after_block(name)

        return orig, w

    for name in BLOCKS:
        originals[name], w = wrap(name)
        setattr(wm, name, w)

    o_normal, o_gamma, o_mvn = npr.normal, npr.gamma, attach(scm, "sample_mvn_from_precision")
    ctx_rng = np.random.default_rng(case["seed"] + 1)

    def p_normal(loc=0.0, scale=1.0, size=None):
        rec.normal(loc, scale)
        return o_normal(loc, scale, size)

    def p_gamma(shape, scale=1.0, size=None):
        rec.gamma(shape, scale)
        v = o_gamma(shape, scale, size)
        rec.gamma_result(v)
        return v

    def p_mvn(Q, mu=None, mu_part=None, chol_factor=False, rng=None):
        rec.last_c = None
        rec.mvn(Q, mu, mu_part, chol_factor)
        rec.in_mvn = True
        try:
            # (the generator argument goes through as the sampler gave it - None included; a generator the library then builds for
            # itself with default_rng() is the seeded ctx_rng, see the patch of default_rng below, so the run stays reproducible)
            val = o_mvn(Q, mu=mu, mu_part=mu_part, chol_factor=chol_factor, rng=getattr(rng, "_g", rng))
            if rec.last_c is not None and rec.block is not None:
                rec.applied.append((rec.block, rec.last_c, np.array(val, dtype=float, copy=True)))
            return val
        except (TypeError, AttributeError, NameError) as e:
            # never a numerical condition: the draw itself is broken (the sampler's bare `except:` would hide it and keep the old row)
            rec.fail(str(rec.block) + ".draw_failed", "the multivariate-normal draw of block %s raised %r, so the coordinate is not redrawn from its full conditional" % (rec.block, e))
            raise
        finally:
            rec.in_mvn = False

    state0 = npr.get_state()
    npr.seed(case["seed"] % (2**32))
    o_default_rng = np.random.default_rng

    def p_default_rng(seed=None, *a, **k):
        return ctx_rng if seed is None and not a and not k else o_default_rng(seed, *a, **k)

    np.random.default_rng = npr.default_rng = p_default_rng
    npr.normal, npr.gamma = p_normal, p_gamma
    np.random.normal, np.random.gamma = p_normal, p_gamma
    scm.sample_mvn_from_precision = p_mvn
    if not case.get("default_generator"):
        model.set_rng(RecGen(np.random.default_rng(case["seed"] + 2), rec))
    # else: the model is used exactly as its constructor's defaults leave it (no generator handed over): its draws then come from
    # numpy's global functions / a fresh generator, which the patches above record all the same
    try:
        with np.errstate(all="ignore"):
            for step in range(case["steps"]):
                ev = events[step] if step < len(events) else "none"
                if ev == "reset" and step > 0:
                    model.reset_model()
                    counts["resets"] += 1
                elif ev == "shrink" and step > 0:
                    wm.W[...] = np.asarray(wm.W) * (1e-3 if step % 2 else 1e-6)
                    attach(wm, "_reconstruct_Mu")()
                    counts["shrinks"] += 1
                elif ev == "add" and pending_second_batch:
                    model.add_observations(screen.subset(~first))
                    pending_second_batch = False
                    counts["second_batches"] += 1
                rec.order = []
                model.step()
                require(rec.order == BLOCKS, "step.block_order", lambda: "blocks visited %r, documented order %r" % (rec.order, BLOCKS))
                theta = model.get_model_state()
                s = G.State(wm)
                if s.n:
                    seen = screen if not pending_second_batch else screen.subset(first)
                    pred = np.asarray(theta.predict_conditional_mean(seen), dtype=float)
                    mu = G.fitted(s)
                    require(bool(np.all(np.abs(pred - mu) <= 1e-3 * (np.abs(mu) + 1.0 / np.sqrt(s.prec)) + 1e-4)), "export.predicts_fitted_values", lambda: "exported sample predicts %r on the training experiments, sampler's parameters imply %r" % (pred.tolist(), mu.tolist()))
                    var = np.asarray(theta.predict_conditional_variance(seen), dtype=float)
                    require(bool(np.allclose(var, 1.0 / s.prec, rtol=1e-6)), "export.noise_precision", lambda: "exported variance %r, sampler precision %r" % (var.tolist()[:3], s.prec))
    finally:
        npr.normal, npr.gamma = o_normal, o_gamma
        np.random.normal, np.random.gamma = o_normal, o_gamma
        np.random.default_rng = npr.default_rng = o_default_rng
        scm.sample_mvn_from_precision = o_mvn
        npr.set_state(state0)
        for name, orig in originals.items():
            try:
                delattr(wm, name)
            except AttributeError:
                pass
    tid = np.asarray(screen.treatment_ids)
    labels = ["D=%d" % D]
    if case["extra_samples"] or case["extra_treatments"]:
        labels.append("dataless-coordinates")
    if np.any((tid == -1).sum(axis=1) == 1):
        labels.append("single-agent-rows")
    counts["nontrivial_draws"] = rec.nontrivial_draws
    counts["steps"] = case["steps"]
    return {"nontrivial": rec.nontrivial_draws > 0, "labels": labels, "counts": dict(counts)}
