#!/bin/sh
# Offline setup: make sure hypothesis is importable by the repository's interpreter.
set -e
cd "$(dirname "$0")"
if /venv/bin/python -c "import hypothesis" 2>/dev/null; then
  echo "hypothesis already importable in /venv"
else
  /venv/bin/pip install --no-index --find-links /opt/veriftools/wheels hypothesis >/dev/null 2>&1 || \
  /venv/bin/pip install --no-index --find-links /opt/veriftools/wheels --target ./.deps hypothesis
fi
PYTHONPATH=./.deps /venv/bin/python -c "import hypothesis, numpy, h5py, pandas, scipy; print('setup ok: hypothesis', hypothesis.__version__)"
