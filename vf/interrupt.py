"""Asynchronous interruptions inside a library call.  `interrupted_at(f, k)` runs f() and raises KeyboardInterrupt when the k-th line
of code of the tree under test is about to execute (what Ctrl-C, a signal-based timeout or a worker shutdown does at an arbitrary
point).  The interrupted call itself promises nothing; what the checks look at is the process afterwards: functions whose result
is a function of their arguments, and freshly made objects, must still behave as the property says (module-level and class-level
state must not be left half-updated).  Objects that were being modified by the interrupted call are NOT examined."""
import os
import sys

from . import tree


class Interrupted(Exception):
    pass


def interrupted_at(f, k):
    """-> ("interrupted", exception) | ("completed", result): f() with KeyboardInterrupt raised at the k-th (1-based) line event
    inside source files of the tree under test"""
    src = os.path.realpath(tree.SRC) + os.sep
    orch = os.path.realpath(tree.ORCH)
    seen = [0]
    cache = {}

    def in_tree(fn):
        v = cache.get(fn)
        if v is None:
            rp = os.path.realpath(fn) if not fn.startswith("<") else fn
            v = cache[fn] = rp.startswith(src) or rp == orch
        return v

    def local(frame, event, arg):
        if event == "line":
            seen[0] += 1
            if seen[0] == k:
                sys.settrace(None)
                raise KeyboardInterrupt("injected at %s:%d" % (os.path.basename(frame.f_code.co_filename), frame.f_lineno))
        return local

    def glob(frame, event, arg):
        if event == "call" and in_tree(frame.f_code.co_filename):
            return local
        return None

    old = sys.gettrace()
    sys.settrace(glob)
    try:
        try:
            r = f()
        finally:
            sys.settrace(old)
    except KeyboardInterrupt as e:
        if "injected at" in str(e):
            return "interrupted", e
        raise
    return "completed", r


def private_module(dotted):
    """a fresh, private copy of one module of the tree under test (its own module-level state), not registered in sys.modules"""
    import importlib.util

    path = os.path.join(tree.SRC, *dotted.split(".")) + ".py"
    spec = importlib.util.spec_from_file_location("_private_" + dotted.replace(".", "_"), path)
    mod = importlib.util.module_from_spec(spec)
    mod.__package__ = dotted.rsplit(".", 1)[0]
    spec.loader.exec_module(mod)
    return mod


def reentered_at(f, k, g):
    """-> (result of f, result of g or None): f() runs; when the k-th line of code of the tree under test (inside f) is about to
    execute, g() is run to completion in the same thread - what a signal handler, a callback or (as far as shared state goes)
    another thread scheduled at that moment does - and f then carries on.  Functions of their arguments do not care; code that
    parks intermediate results in module-level, class-level or object-level scratch space shared with g does."""
    src = os.path.realpath(tree.SRC) + os.sep
    orch = os.path.realpath(tree.ORCH)
    seen = [0]
    out = [None, False]
    cache = {}

    def in_tree(fn):
        v = cache.get(fn)
        if v is None:
            rp = os.path.realpath(fn) if not fn.startswith("<") else fn
            v = cache[fn] = rp.startswith(src) or rp == orch
        return v

    def local(frame, event, arg):
        if event == "line" and not out[1]:
            seen[0] += 1
            if seen[0] == k:
                sys.settrace(None)
                out[1] = True
                out[0] = g()
                return None
        return local if not out[1] else None

    def glob(frame, event, arg):
        if event == "call" and not out[1] and in_tree(frame.f_code.co_filename):
            return local
        return None

    old = sys.gettrace()
    sys.settrace(glob)
    try:
        r = f()
    finally:
        sys.settrace(old)
    return r, out[0], out[1]
