"""Injected storage failures.  While `failing(k)` is active, the k-th write request an HDF5 archive receives (creating a dataset,
setting an attribute - counted from the start of the block) fails with OSError(ENOSPC), as a full disk or an exceeded quota makes
it fail.  What a save routine does about it is its own business - but if it RETURNS normally, the caller is entitled to what a save
promises: the file at that path loads back as the object that was saved.  `count()` measures how many write requests a fault-free
run makes."""
import contextlib
import errno


class _State:
    def __init__(self, fail_at):
        self.n = 0
        self.fail_at = fail_at
        self.fired = False


@contextlib.contextmanager
def failing(k):
    import h5py

    st = _State(k)
    targets = [(h5py.Group, "create_dataset"), (h5py.AttributeManager, "__setitem__"), (h5py.AttributeManager, "create")]
    orig = [(c, n, c.__dict__[n]) for c, n in targets if n in c.__dict__]
    depth = [0]

    def mk(f):
        def wrapped(*a, **kw):
            if depth[0]:  # (attrs.__setitem__ calls attrs.create: one request, counted once)
                return f(*a, **kw)
            i = st.n
            st.n += 1
            if st.fail_at is not None and i == st.fail_at:
                st.fired = True
                raise OSError(errno.ENOSPC, "No space left on device (injected)")
            depth[0] += 1
            try:
                return f(*a, **kw)
            finally:
                depth[0] -= 1

        wrapped.__name__ = getattr(f, "__name__", "wrapped")
        wrapped.__doc__ = getattr(f, "__doc__", None)
        return wrapped

    for c, n, f in orig:
        setattr(c, n, mk(f))
    try:
        yield st
    finally:
        for c, n, f in orig:
            setattr(c, n, f)


def count(save):
    with failing(None) as st:
        save()
    return st.n


def save_under_faults(save, verify, paths, require, tag, what, points=None):
    """save(path) is run once per write request with that request failing; whenever it returns normally although the fault fired,
    verify(path) must hold (it raises the check's own violation otherwise).  -> (requests, returned normally, raised)"""
    first = paths(-1)
    n = count(lambda: save(first))
    returned = raised = 0
    for k in (range(n) if points is None else [p for p in points if p < n]):
        path = paths(k)
        with failing(k) as st:
            try:
                save(path)
                ok = True
            except Exception:  # noqa: the injected failure (or whatever the routine turns it into) reaches the caller: nothing is promised
                ok = False
        if not st.fired:
            continue
        if ok:
            returned += 1
            try:
                verify(path)
            except FileNotFoundError:
                require(False, tag + ".returned_without_file", "%s returned normally although write request %d of %d failed (disk full); no file exists at the path" % (what, k, n))
            except OSError as e:
                require(False, tag + ".returned_with_unreadable_file", "%s returned normally although write request %d of %d failed (disk full); the file cannot be read: %r" % (what, k, n, e))
            except KeyError as e:
                require(False, tag + ".returned_with_incomplete_file", "%s returned normally although write request %d of %d failed (disk full); the file lacks %r" % (what, k, n, e))
        else:
            raised += 1
    return n, returned, raised
