#!/bin/sh
# tools/try_seeded.sh <ID> <dir with patch.diff demo.py meta.json> [check ids...]
# Confirms a seeded change in a scratch worktree (never in /repo): patch applies, 151 tests pass, demo fails with / passes
# without the change; then runs the given checks (default: the property's own) against the scratch tree via BATCHIE_REPO.
# VERIF_DIR=<frozen copy of /verif> runs the checks from that copy (so that edits made meanwhile do not blur "caught as it stood").
id=$1; dir=$2; shift 2
checks=${*:-$(python3 -c "import json;print(json.load(open('$dir/meta.json'))['property'])")}
wt=/tmp/sv_$id
git -C /repo worktree remove --force $wt >/dev/null 2>&1
git -C /repo worktree add --detach $wt HEAD -q || exit 2
echo "== unchanged tree: demo"; (cd $wt && TREE=$wt PYTHONPATH=$wt/src /venv/bin/python $dir/demo.py >/tmp/sv_$id.demo0 2>&1; echo "demo rc(unchanged)=$?")
git -C $wt apply $dir/patch.diff || { echo "PATCH DOES NOT APPLY"; git -C /repo worktree remove --force $wt; exit 2; }
echo "== changed tree: tests"; (cd $wt && PYTHONPATH=$wt/src /venv/bin/python -m pytest -q -p no:cacheprovider src 2>&1 | grep -E "passed|failed|error" | tail -1)
echo "== changed tree: demo"; (cd $wt && TREE=$wt PYTHONPATH=$wt/src /venv/bin/python $dir/demo.py >/tmp/sv_$id.demo1 2>&1; echo "demo rc(changed)=$?"; tail -3 /tmp/sv_$id.demo1)
for c in $checks; do
  echo "== check $c against changed tree"
  BATCHIE_REPO=$wt VERIF_OUT=/tmp/sv_out_$id /venv/bin/python ${VERIF_DIR:-/verif}/run_check.py $c --tier ${TIER:-quick} 2>&1 | tail -3 | cut -c1-400
done
find $wt -name __pycache__ -prune -exec rm -rf {} + 2>/dev/null
git -C /repo worktree remove --force $wt; rm -rf /tmp/sv_out_$id /tmp/sv_$id.demo0 /tmp/sv_$id.demo1
