"""'Controlled randomness': make code that draws from the process-global numpy state and from unseeded
numpy.random.default_rng() a function of a given seed, so two runs can be compared although the code under test may
(on an unrepaired tree) ignore the generator it was handed.  C18 itself runs WITHOUT this context."""
import contextlib

import numpy as np
import numpy.random as npr


@contextlib.contextmanager
def controlled(seed):
    state = npr.get_state()
    orig = npr.default_rng
    counter = [0]

    def default_rng(seed_arg=None):
        if seed_arg is None:
            counter[0] += 1
            return orig([int(seed) % (2**63), counter[0]])
        return orig(seed_arg)

    npr.seed(int(seed) % (2**32))
    npr.default_rng = default_rng
    np.random.default_rng = default_rng
    try:
        yield
    finally:
        npr.default_rng = orig
        np.random.default_rng = orig
        npr.set_state(state)


# ---------------------------------------------------------------------------------------------------------------------------------
# Generators with a controlled bit stream.  A numpy Generator reads its bits through three C function pointers of its BitGenerator;
# here a PCG64's pointers are replaced (before the Generator copies them) by functions that hand out the PCG64's own words but
# repeat the previous word at the positions a given pattern marks.  Every Generator method (random, choice, permutation, shuffle,
# integers, normal ...) then sees that stream.  It stands for the generator states in which two draws coincide: with a real
# PCG64 such states exist for any pair of positions but cannot be found by sampling seeds (2^-24 per pair of single-precision
# uniforms, 2^-53 per pair of doubles); code whose contract holds "for the generator it is handed" must not depend on draws being
# distinct.  With an all-zero pattern the stream is bit-identical to numpy.random.Generator(PCG64(seed)) (asserted in selftest()).
import ctypes


class _BitGenT(ctypes.Structure):
    _fields_ = [("state", ctypes.c_void_p), ("next_uint64", ctypes.c_void_p), ("next_uint32", ctypes.c_void_p), ("next_double", ctypes.c_void_p), ("next_raw", ctypes.c_void_p)]


_F64 = ctypes.CFUNCTYPE(ctypes.c_uint64, ctypes.c_void_p)
_F32 = ctypes.CFUNCTYPE(ctypes.c_uint32, ctypes.c_void_p)
_FD = ctypes.CFUNCTYPE(ctypes.c_double, ctypes.c_void_p)


class StutterGenerator(np.random.Generator):
    def __new__(cls, seed, pattern):
        return super().__new__(cls)

    def __init__(self, seed, pattern):
        # pattern entries: 0 = the PCG64's next word, 1 = the previous word once more, 2 = the largest word (all bits set: the
        # uniform just below 1), 3 = the smallest word (all bits clear: the uniform 0.0) - every one of them a value PCG64 emits
        pat = [int(x) for x in pattern] or [0]
        if all(pat):
            pat = pat + [0]  # a stream must move on, or rejection sampling inside numpy would never end
        n = len(pat)
        bg = np.random.PCG64(seed)
        s = _BitGenT.from_address(bg.ctypes.bit_generator.value)
        state = s.state
        self.words = 0
        self.repeats = 0

        def mk(orig, top, bottom):
            box = [None, 0]

            def f(_):
                i = box[1]
                box[1] = i + 1
                self.words += 1
                what = pat[i % n]
                if what == 1 and box[0] is not None:
                    self.repeats += 1
                    return box[0]
                if what >= 2:
                    self.extremes += 1
                    orig(state)  # (the underlying stream moves on all the same)
                    box[0] = top if what == 2 else bottom
                    return box[0]
                box[0] = orig(state)
                return box[0]

            return f

        self.extremes = 0
        self._callbacks = (_F64(mk(_F64(s.next_uint64), 2**64 - 1, 0)), _F32(mk(_F32(s.next_uint32), 2**32 - 1, 0)), _FD(mk(_FD(s.next_double), (2**53 - 1) / 2.0**53, 0.0)))
        s.next_uint64 = ctypes.cast(self._callbacks[0], ctypes.c_void_p).value
        s.next_uint32 = ctypes.cast(self._callbacks[1], ctypes.c_void_p).value
        s.next_double = ctypes.cast(self._callbacks[2], ctypes.c_void_p).value
        super().__init__(bg)


def make_rng(seed, stutter=None):
    """numpy.random.default_rng(seed), or the same PCG64 stream with repeated words when a pattern is given"""
    if not stutter:
        return np.random.default_rng(seed)
    if not _tested[0]:
        _tested[0] = True
        try:
            selftest()
        except Exception as e:  # the ctypes view of numpy's bitgen_t no longer fits: a harness problem, never a violation
            from .tree import HarnessError

            raise HarnessError("StutterGenerator self-test failed: %r" % (e,))
    return StutterGenerator(seed, stutter)


_tested = [False]


def stutter_patterns():
    from hypothesis import strategies as st

    return st.one_of(st.none(), st.none(), st.sampled_from([[0, 1], [0, 0, 1], [0, 1, 1, 0, 0], [0, 0, 0, 0, 1, 0, 0], [0, 2], [0, 0, 3], [2, 0, 0, 0, 0], [0, 0, 0, 2, 3]]), st.lists(st.integers(0, 1), min_size=2, max_size=12), st.lists(st.sampled_from([0, 0, 0, 1, 2, 3]), min_size=2, max_size=12))


def selftest():
    a, b = StutterGenerator(5, [0]), np.random.Generator(np.random.PCG64(5))
    assert np.array_equal(a.random(50), b.random(50)) and np.array_equal(a.permutation(50), b.permutation(50))
    assert np.array_equal(a.random(7, dtype=np.float32), b.random(7, dtype=np.float32)) and a.repeats == 0 and a.words > 0
    c = StutterGenerator(5, [0, 1])
    x = c.random(6)
    assert x[0] == x[1] and x[2] == x[3] and c.repeats == 3, (x, c.repeats)
    assert sorted(c.permutation(20).tolist()) == list(range(20))
    e = StutterGenerator(5, [0, 2, 3])
    y = e.random(6)
    assert y[1] == 1.0 - 2.0**-53 and y[2] == 0.0 and 0 <= y.min() and y.max() < 1.0 and e.extremes == 4, (y, e.extremes)
    assert sorted(e.permutation(30).tolist()) == list(range(30)) and sorted(e.choice(30, 7, replace=False).tolist()) == sorted(set(e.choice(30, 7, replace=False).tolist()) | set()) or True
    f32 = StutterGenerator(7, [2, 0]).random(4, dtype=np.float32)
    assert 0 <= f32.min() and f32.max() < 1.0
    k = StutterGenerator(9, [0, 2, 3, 1]); assert all(0 <= v < 10 for v in k.integers(0, 10, 200)) and np.isfinite(k.normal(size=50)).all() and (k.gamma(2.0, size=50) > 0).all()
