"""C13 - generated, smoothed and initial plates satisfy their documented shape guarantees."""
import collections
import heapq
import math

import numpy as np
from hypothesis import strategies as st

from vf import retro
from vf import randomctl
from vf import strategies as S
from vf.engine import Violation, require

ID = "C13"
LEVEL = "exploration"
TECHNIQUE = "Hypothesis-generated screens biased to boundary layouts x every shipped operator; per-operator validity predicates and small reference simulations (heap merge, halving, optimal size)"
RULE = (
    "screens (two treatment slots; one in four with three, so partial combinations occur) with several samples of few experiments each, samples with exactly the size limit, single-agent rows, one or many plates; each case runs "
    "SampleSegregating, Pairwise, FixedSize, OptimalSize, NPlatePerCellLine, MergeMin, MergeTopBottom (the latter three on single-sample-per-plate layouts), "
    "the sparse-cover initial plate (both flag values, on the fully observed screen) and the combination filter, with drawn parameters/seed. Operators that "
    "raise are counted, not flagged. Non-trivial = >=2 samples at or below the size limit (segregating) or >=2 samples to drop (n-plate) or >=3 plates in one "
    "sample (merge smoothers). distinct = distinct case JSON."
    ' In half the cases the generator handed over is a PCG64 whose stream repeats words at drawn positions (vf.randomctl.StutterGenerator).'
    ' Also: every plate-size limit 1 .. 420 (thorough 2100) with samples of m, m-1, 2m, k*m, k*m+1 experiments (sample-segregating generator, fixed-size smoother).'
    ' Also: fixed screens with 42 .. 500 samples, most of them with a single unobserved plate.'
    ' The sparse cover also runs on the fully observed screen carrying the id table of a screen with one more treatment.'
)
ASSUMPTIONS = [
    "guarantees are asserted on the unobserved plates of the returned screen (the observed part passes through: C11)",
    "min-merge is compared with a heap simulation on plate sizes per sample; ties between equal sizes do not affect the resulting size multiset",
]


def budgets(tier):
    if tier == "quick":
        return {"examples": 170, "max_s": 120, "shrink_s": 20, "shards": 1}
    return {"examples": 2000, "max_s": 700, "shrink_s": 90, "shards": 16}


@st.composite
def _case(draw):
    if draw(st.booleans()):
        sc = draw(retro.retro_screen(single_sample_plates=True, n_rows=(1, 20), arity=draw(st.sampled_from([2, 2, 2, 3]))))
    else:  # few samples with many plates of diverse sizes (merge smoothers need >=4 plates in one sample)
        sc = draw(retro.retro_screen(single_sample_plates=True, n_rows=(8, 26), n_samples=(1, 2), n_plates=(3, 7)))
    return {
        "screen": sc,
        "seed": draw(st.integers(0, 2**32 - 1)),
        "stutter": draw(randomctl.stutter_patterns()),  # a generator whose consecutive draws sometimes coincide
        "max_plate_size": draw(st.integers(1, 6)),
        "pairwise": {"name": "Pairwise", "subset_size": draw(st.sampled_from([1, 1, 2, 3])), "anchor_size": draw(st.sampled_from([0, 0, 1, 2]))},
        "plate_size": draw(st.integers(1, 5)),
        "k": draw(st.integers(1, 4)),
        "min_size": draw(st.integers(1, 8)),
        "n_iterations": draw(st.integers(0, 3)),
        "cover_flag": draw(st.booleans()),
        "nul_plates": draw(st.integers(0, 5)) == 0,
        "mixed_layout": draw(st.booleans()),
        "pairwise_screen": draw(retro.pairwise_screen()) if draw(st.booleans()) else None,
        # a small screen of its own for the combination filter (treatments that occur only in single-agent rows are frequent here)
        "filter_screen": draw(S.simple_screen(n_samples=(1, 2), n_treat=(2, 6), n_rows=(1, 6), n_plates=(1, 2), arity=draw(st.sampled_from([2, 2, 3])))),
    }


def strategy(tier):
    return _case()


def _unobs_plates(s):
    """{plate name: [row indices]} of the unobserved plates."""
    d = collections.defaultdict(list)
    for i in range(s.size):
        if not bool(s.observation_mask[i]):
            d[str(s.plate_names[i])].append(i)
    return d


def _samples(s, rows):
    return sorted({str(s.sample_names[i]) for i in rows})


def _run(name, f, labels):
    try:
        return f()
    except Violation:
        raise
    except Exception as e:
        labels.append("raised:%s:%s" % (name, type(e).__name__))
        return None


_ALIVE = []


def _mk(cls, **kw):
    """the operator under test, plus differently configured objects of the same class (and an ensemble, which builds merge /
    per-sample smoothers of its own) constructed afterwards and kept alive: an operator's settings are its own"""
    from batchie import retrospective as R_

    obj = cls(**kw)
    del _ALIVE[:]
    try:
        _ALIVE.append(cls(**{k_: (v_ + 5 if isinstance(v_, int) and not isinstance(v_, bool) else v_) for k_, v_ in kw.items()}))
        _ALIVE.append(cls(**{k_: (max(1, v_ - 1) if isinstance(v_, int) and not isinstance(v_, bool) else (not v_ if isinstance(v_, bool) else v_)) for k_, v_ in kw.items()}))
        _ALIVE.append(R_.BatchieEnsemblePlateSmoother(min_size=97, n_iterations=3, min_n_cell_line_plates=9))
    except Exception:
        pass
    return obj


def exhaustive(tier):
    # plate-size limits as real plates have them (tens to thousands of wells), every value of a range, with samples whose
    # experiment counts are exact multiples of the limit, one more and one less
    top = 420 if tier == "quick" else 2100
    for a in range(1, top, 60):
        yield {"kind": "size_sweep", "limits": [a, min(a + 60, top)], "seed": a}
    # screens with as many samples (cell lines) as a real campaign: most have a single unobserved plate, a few have several
    for ns, rich, k in [(42, 2, 2), (130, 5, 3)] + ([(260, 9, 2), (70, 1, 4), (500, 20, 2)] if tier != "quick" else []):
        rows = []
        for s_ in range(ns):
            n_pl = (k + s_ % 2) if s_ % (ns // rich) == 0 else 1 + (s_ % 7 == 3) * (k - 2 if k > 2 else 0)
            for j in range(max(1, n_pl)):
                for r_ in range(1 + (s_ + j) % 2):
                    rows.append({"s": "line%03d" % s_, "p": "pl_%03d_%d" % ((7 * s_) % ns, j), "t": ["t%d" % ((s_ + r_) % 4), "t%d" % ((s_ + r_ + 1 + j % 3) % 4)], "d": [1.0, 2.0], "o": 0.5})
        rows.append({"s": "line000", "p": "zz_observed", "t": ["t0", "ctl"], "d": [1.0, 0.0], "o": 0.9})
        sc = {"arity": 2, "control": "ctl", "rows": rows, "observed": ["zz_observed"], "ns": ns, "nt": 8, "ssp": True, "layout": None}
        yield {"screen": sc, "seed": ns, "stutter": None, "max_plate_size": 3, "pairwise": {"name": "Pairwise", "subset_size": 1, "anchor_size": 0}, "plate_size": 2, "k": k, "min_size": 3, "n_iterations": 1, "cover_flag": True, "mixed_layout": False, "pairwise_screen": None, "filter_screen": None}


def _check_size_sweep(case):
    from batchie import retrospective as R
    from batchie.data import Screen

    checked = 0
    for m in range(*case["limits"]):
        mult = 2 + m % 3
        counts = [m * mult, m * mult + 1, m, max(1, m - 1), 2 * m]
        sample = np.repeat(np.arange(len(counts)), counts)
        n = len(sample)
        i = np.arange(n)
        screen = Screen(treatment_names=np.stack([np.char.add("t", (i % 7).astype(str)), np.char.add("t", ((i + 1 + i // 7 % 5) % 7).astype(str))], axis=1), treatment_doses=np.ones((n, 2)), observations=np.full(n, 0.5), observation_mask=np.zeros(n, dtype=bool), sample_names=np.char.add("s", sample.astype(str)), plate_names=np.char.add("p", sample.astype(str)), control_treatment_name="ctl")
        out = R.SampleSegregatingPermutationPlateGenerator(max_plate_size=m).generate_plates(screen, randomctl.make_rng(case["seed"] + m, [None, [0, 1], [0, 2, 0, 3]][m % 3]))
        pn, sn = np.asarray(out.plate_names), np.asarray(out.sample_names)
        require(out.size == n and not bool(np.any(np.asarray(out.observation_mask))), "segregating.sweep.keeps_experiments", lambda: "limit %d: %d of %d experiments left, %d observed" % (m, out.size, n, int(np.sum(out.observation_mask))))
        names, inv, cnt = np.unique(pn, return_inverse=True, return_counts=True)
        worst = int(cnt.max())
        require(worst <= m, "segregating.max_size", lambda: "limit %d, samples with %r experiments: plate %r has %d experiments" % (m, counts, str(names[int(cnt.argmax())]), worst))
        first = np.full(len(names), "", dtype=sn.dtype)
        first[inv] = sn
        require(bool(np.all(first[inv] == sn)), "segregating.single_sample", lambda: "limit %d: a generated plate holds more than one sample" % m)
        # plates of m, m+1, 2m-1, m-1 and 3m experiments cut to the fixed size m
        sizes = [m, m + 1, 2 * m - 1, max(1, m - 1), 3 * m]
        plate = np.repeat(np.arange(len(sizes)), sizes)
        k = len(plate)
        j = np.arange(k)
        scr2 = Screen(treatment_names=np.stack([np.char.add("t", (j % 5).astype(str)), np.char.add("t", ((j + 1) % 5).astype(str))], axis=1), treatment_doses=np.ones((k, 2)), observations=np.full(k, 0.5), observation_mask=np.zeros(k, dtype=bool), sample_names=np.full(k, "s"), plate_names=np.char.add("q", plate.astype(str)), control_treatment_name="ctl")
        out2 = R.FixedSizeSmoother(plate_size=m).smooth_plates(scr2, randomctl.make_rng(case["seed"] + m + 1, [None, [0, 1], [0, 2, 0, 3]][(m + 1) % 3]))
        names2, cnt2 = np.unique(np.asarray(out2.plate_names), return_counts=True)
        want = sorted("q%d" % q for q, v in enumerate(sizes) if v >= m)
        require(sorted(str(x) for x in names2) == want and bool(np.all(cnt2 == m)), "fixedsize.sweep", lambda: "fixed size %d on plates of %r experiments leaves plates %r with %r experiments" % (m, sizes, [str(x) for x in names2], cnt2.tolist()))
        checked += 1
    return {"nontrivial": True, "labels": ["size-sweep"], "counts": {"limits_swept": checked}}


def check_case(case):
    if case.get("kind") == "size_sweep":
        return _check_size_sweep(case)
    from batchie import retrospective as R
    from batchie.data import filter_dataset_to_treatments_that_appear_in_at_least_one_combo

    sc = case["screen"]
    if case.get("nul_plates"):
        # plate labels that agree up to an embedded NUL character: different labels (nothing here is written to an archive)
        ren_ = {p_: "batch\x00" + p_ for p_ in {r["p"] for r in sc["rows"]}}
        sc = dict(sc, rows=[dict(r, p=ren_[r["p"]]) for r in sc["rows"]], observed=sorted(ren_[p_] for p_ in sc["observed"]))
    if case["mixed_layout"]:
        # arbitrary (multi-sample) plates for the operators that do not require single-sample plates
        sc_any = dict(sc, rows=[dict(r, p=r["p"].split("_")[-1]) for r in sc["rows"]])
        obs_any = sorted({r["p"].split("_")[-1] for r in sc["rows"] if r["p"] in set(sc["observed"])})
        # a merged plate must be uniformly observed: observed iff all of its source plates were
        by = collections.defaultdict(set)
        for r in sc["rows"]:
            by[r["p"].split("_")[-1]].add(r["p"] in set(sc["observed"]))
        sc_any["observed"] = sorted(p for p, v in by.items() if v == {True})
    else:
        sc_any = sc
    labels = []
    nontrivial = False
    seed = case["seed"]

    # ---- SampleSegregating
    screen = S.build_screen(sc_any)
    mx = case["max_plate_size"]
    out = _run("SampleSegregating", lambda: _mk(R.SampleSegregatingPermutationPlateGenerator, max_plate_size=mx).generate_plates(screen, randomctl.make_rng(seed, case.get("stutter"))), labels)
    if out is not None:
        labels.append("ran:SampleSegregating")
        per_sample = collections.Counter(str(screen.sample_names[i]) for i in range(screen.size) if not bool(screen.observation_mask[i]))
        if sum(1 for v in per_sample.values() if v <= mx) >= 2:
            nontrivial = True
            labels.append("segregating:>=2-samples-at-or-below-limit")
        for p, rows in _unobs_plates(out).items():
            smp = _samples(out, rows)
            require(len(smp) == 1, "segregating.single_sample", lambda: "unobserved plate %r contains samples %r (max_plate_size=%d, unobserved experiments per sample %r)" % (p, smp, mx, dict(per_sample)))
            require(len(rows) <= mx, "segregating.max_size", lambda: "unobserved plate %r has %d experiments, limit %d" % (p, len(rows), mx))

    # ---- Pairwise
    screen = S.build_screen(case.get("pairwise_screen") or sc_any)
    out = _run("Pairwise", lambda: retro.apply_operator(case["pairwise"], screen, randomctl.make_rng(seed, case.get("stutter"))), labels)
    if out is not None:
        labels.append("ran:Pairwise")
        for p, rows in _unobs_plates(out).items():
            smp = _samples(out, rows)
            require(len(smp) == 1, "pairwise.single_sample", lambda: "unobserved plate %r contains samples %r" % (p, smp))

    # ---- FixedSize / OptimalSize (one smoother object per kind, used on the case's layout and then on a second screen)
    ps = case["plate_size"]
    smoothers = {"FixedSize": _mk(R.FixedSizeSmoother, plate_size=ps), "OptimalSize": R.OptimalSizeSmoother()}
    second = case.get("pairwise_screen") or case.get("filter_screen")
    layouts = [sc_any] + ([dict(second, observed=[])] if second else [])
    for name, lay in [(n_, l_) for l_ in layouts for n_ in ("FixedSize", "OptimalSize")]:
        screen = S.build_screen(lay)
        before = {p: len(rows) for p, rows in _unobs_plates(screen).items()}
        smoother = smoothers[name]
        out = _run(name, lambda: smoother.smooth_plates(screen, randomctl.make_rng(seed, case.get("stutter"))), labels)
        if out is None or not before:
            continue
        labels.append("ran:" + name)
        after = {p: len(rows) for p, rows in _unobs_plates(out).items()}
        sizes = sorted(set(after.values()))
        require(len(sizes) <= 1, name.lower() + ".common_size", lambda: "unobserved plates have sizes %r after smoothing (before %r)" % (after, before))
        if name == "FixedSize":
            require(all(v == ps for v in after.values()), "fixedsize.size", lambda: "plates %r, configured size %d" % (after, ps))
            keep = sorted(p for p, v in before.items() if v >= ps)
            require(sorted(after) == keep, "fixedsize.kept_plates", lambda: "kept plates %r, plates of size >= %d were %r" % (sorted(after), ps, keep))
        else:
            best = max(s * sum(1 for v in before.values() if v >= s) for s in before.values())
            if after:
                s_star = sizes[0]
                retained = s_star * len(after)
                require(sorted(after) == sorted(p for p, v in before.items() if v >= s_star), "optimalsize.kept_plates", lambda: "kept %r, expected all plates of size >= %d of %r" % (sorted(after), s_star, before))
            else:
                retained = 0
            require(retained == best, "optimalsize.retains_most", lambda: "retained %d experiments, the best common size retains %d (plate sizes %r)" % (retained, best, sorted(before.values())))

    # ---- operators on single-sample plates
    screen = S.build_screen(sc)
    un = _unobs_plates(screen)
    plates_per_sample = collections.Counter(_samples(screen, rows)[0] for rows in un.values())
    sizes_per_sample = collections.defaultdict(list)
    for rows in un.values():
        sizes_per_sample[_samples(screen, rows)[0]].append(len(rows))

    k = case["k"]
    out = _run("NPlatePerCellLine", lambda: _mk(R.NPlatePerCellLineSmoother, min_n_cell_line_plates=k).smooth_plates(screen, randomctl.make_rng(seed, case.get("stutter"))), labels)
    if out is not None and un:
        labels.append("ran:NPlatePerCellLine")
        drop = sorted(s for s, c in plates_per_sample.items() if c < k)
        if len(drop) >= 2:
            nontrivial = True
            labels.append("nplate:>=2-samples-to-drop")
        after = collections.Counter(_samples(out, rows)[0] for rows in _unobs_plates(out).values())
        for s, c in after.items():
            require(c >= k, "nplate.min_plates", lambda: "sample %r keeps %d unobserved plates, fewer than k=%d (before: %r)" % (s, c, k, dict(plates_per_sample)))
        require(sorted(after) == sorted(s for s in plates_per_sample if s not in drop), "nplate.exactly_short_samples_removed", lambda: "samples left %r; samples with >= %d plates were %r (before: %r)" % (sorted(after), k, sorted(s for s in plates_per_sample if s not in drop), dict(plates_per_sample)))
        for s, c in after.items():
            require(c == plates_per_sample[s], "nplate.kept_samples_untouched", lambda: "sample %r had %d plates, now %d" % (s, plates_per_sample[s], c))

    ms = case["min_size"]
    screen = S.build_screen(sc)
    out = _run("MergeMin", lambda: _mk(R.MergeMinPlateSmoother, min_size=ms).smooth_plates(screen, randomctl.make_rng(seed, case.get("stutter"))), labels)
    if out is not None and un:
        labels.append("ran:MergeMin")
        if max(plates_per_sample.values()) >= 3:
            nontrivial = True
            labels.append("merge:>=3-plates-in-a-sample")
        got = collections.defaultdict(list)
        for p, rows in _unobs_plates(out).items():
            smp = _samples(out, rows)
            require(len(smp) == 1, "mergemin.same_sample_only", lambda: "merged plate %r mixes samples %r" % (p, smp))
            got[smp[0]].append(len(rows))
        for s, sizes in sizes_per_sample.items():
            h = list(sizes)
            heapq.heapify(h)
            while len(h) > 1:
                a = heapq.heappop(h)
                b = heapq.heappop(h)
                if a + b > ms:
                    heapq.heappush(h, a)
                    heapq.heappush(h, b)
                    break
                heapq.heappush(h, a + b)
            require(sorted(got.get(s, [])) == sorted(h), "mergemin.stops_exactly", lambda: "sample %r: plate sizes %r -> %r, heap merge with min_size=%d gives %r" % (s, sorted(sizes), sorted(got.get(s, [])), ms, sorted(h)))

    it = case["n_iterations"]
    screen = S.build_screen(sc)
    out = _run("MergeTopBottom", lambda: _mk(R.MergeTopBottomPlateSmoother, n_iterations=it).smooth_plates(screen, randomctl.make_rng(seed, case.get("stutter"))), labels)
    if out is not None and un:
        labels.append("ran:MergeTopBottom")
        got = collections.Counter()
        for p, rows in _unobs_plates(out).items():
            smp = _samples(out, rows)
            require(len(smp) == 1, "topbottom.same_sample_only", lambda: "merged plate %r mixes samples %r" % (p, smp))
            got[smp[0]] += 1
        for s, c in plates_per_sample.items():
            exp = c
            for _ in range(it):
                exp = math.ceil(exp / 2)
            require(got.get(s, 0) == exp, "topbottom.halves_rounding_up", lambda: "sample %r: %d plates -> %d after %d iterations, expected %d" % (s, c, got.get(s, 0), it, exp))

    # ---- sparse cover on the fully observed screen (the case's layout and the small screen)
    for csc in (sc_any, case.get("filter_screen")):
      if csc is None:
        continue
      csc_obs = dict(csc, observed=sorted({r["p"] for r in csc["rows"]}))
      fulls = [S.build_screen(csc_obs)]
      if csc["rows"]:
          # ... and the same fully observed screen carrying the id tables of a larger screen in which ONE more treatment occurs (what
          # the hold-out helpers and sub-screens hand on): ids are then not the dense range of the treatments present
          r0 = csc["rows"][seed % len(csc["rows"])]
          extra_name = ["a_absent", "zz_absent", r0["t"][0]][seed % 3]
          extra_dose = 7.25 if extra_name == r0["t"][0] else 1.0
          sup_ = S.build_screen(dict(csc_obs, observed=[]), rows=csc["rows"] + [dict(r0, t=[extra_name] + list(r0["t"][1:]), d=[extra_dose] + list(r0["d"][1:]), p=r0["p"])])
          try:
              fulls.append(S.build_screen(csc_obs, treatment_mapping=sup_.treatment_mapping, sample_mapping=sup_.sample_mapping))
          except ValueError:
              pass
      flag = case["cover_flag"]
      for full in fulls:
       out = _run("SparseCover", lambda: _mk(R.SparseCoverPlateGenerator, reveal_single_treatment_experiments=flag).generate_and_unmask_initial_plate(full, randomctl.make_rng(seed, case.get("stutter"))), labels)
       if out is not None:
           labels.append("ran:SparseCover")
           require(out.size == full.size, "cover.size", "sparse cover changed the number of experiments")
           mask = np.asarray(out.observation_mask)
           require(mask.any(), "cover.nonempty", "nothing observed")
           need_s = set(str(x) for x in full.sample_names)
           got_s = set(str(out.sample_names[i]) for i in range(out.size) if mask[i])
           require(got_s == need_s, "cover.every_sample", lambda: "samples without an observed experiment: %r" % sorted(need_s - got_s))
           ctl = sc["control"]
           def conds(s, rows):
               c = set()
               for i in rows:
                   for n_, d_ in zip(s.treatment_names[i], s.treatment_doses[i]):
                       if not (str(n_) == ctl or float(d_) <= 0):
                           c.add((str(n_), float(d_)))
               return c
           need_t = conds(full, range(full.size))
           got_t = conds(out, [i for i in range(out.size) if mask[i]])
           require(got_t == need_t, "cover.every_treatment", lambda: "treatments without an observed experiment: %r" % sorted(need_t - got_t))
           rest = {str(out.plate_names[i]) for i in range(out.size) if not mask[i]}
           require(len(rest) <= 1, "cover.one_unobserved_plate", lambda: "unobserved experiments are spread over plates %r" % sorted(rest))
           obs_pl = {str(out.plate_names[i]) for i in range(out.size) if mask[i]}
           require(not (rest & obs_pl), "cover.plates_disjoint", "observed and unobserved experiments share a plate")
           if flag:
               for i in range(out.size):
                   has_ctl = any(str(n_) == ctl or float(d_) <= 0 for n_, d_ in zip(out.treatment_names[i], out.treatment_doses[i]))
                   require(mask[i] or not has_ctl, "cover.single_agent_revealed", lambda: "row %d contains a control but is not observed" % i)

     # ---- combination filter (on the case's layout and on a small screen of its own)
    for fsc in (sc_any, case.get("filter_screen")):
      if fsc is None:
        continue
      screen = S.build_screen(fsc)
      out = _run("ComboFilter", lambda: filter_dataset_to_treatments_that_appear_in_at_least_one_combo(screen), labels)
      if out is not None:
          labels.append("ran:ComboFilter")
          ctl = sc["control"]
          def is_ctl(n_, d_):
              return str(n_) == ctl or float(d_) <= 0
          in_combo = set()
          for i in range(screen.size):
              pairs = list(zip(screen.treatment_names[i], screen.treatment_doses[i]))
              if not any(is_ctl(n_, d_) for n_, d_ in pairs):
                  in_combo.update((str(n_), float(d_)) for n_, d_ in pairs)
          keep = [i for i in range(screen.size) if all(is_ctl(n_, d_) or (str(n_), float(d_)) in in_combo for n_, d_ in zip(screen.treatment_names[i], screen.treatment_doses[i]))]
          exp = [retro.row_key(screen, i, with_plate=True, with_mask=True) for i in keep]
          got = [retro.row_key(out, i, with_plate=True, with_mask=True) for i in range(out.size)]
          require(got == exp, "combofilter.exact_rows", lambda: "kept %d rows, expected the %d rows whose treatments all occur in a full combination" % (len(got), len(exp)))

    return {"nontrivial": nontrivial, "labels": sorted(set(labels))}
