"""evidence/<ID>.json writer (EVIDENCE.schema.json)."""
import json
import os

from .engine import OUT, sanitize


def write_evidence(mod, tier, seed, stats, wall, violations, exhaustive, n_replays, budget):
    samples = [sanitize(s) for s in (stats.samples[:3] + stats.trivial_samples[:1])]
    if not samples:
        samples = ["<no case small enough to print; see rule>"]
    cov = {
        "evaluations": int(stats.evaluations),
        "distinct_nontrivial": int(len(stats.nontrivial)),
        "rule": mod.RULE,
        "samples": samples,
        "exhaustive": bool(exhaustive and not stats.timed_out and getattr(mod, "strategy", None) is None),
        "exhaustive_part_completed": bool(exhaustive),
        "class_histogram": {k: int(v) for k, v in sorted(stats.labels.items())},
        "counters": {k: int(v) for k, v in sorted(stats.extra.items())},
        "skipped_outside_domain": int(stats.skipped),
        "known_finding_matches": {k: int(v) for k, v in sorted(stats.known.items())},
        "committed_replays_run": int(n_replays),
        "shards": int(budget.get("shards", 1)),
        "examples_requested_per_shard": int(budget.get("examples", 0)),
        "generation_stopped_by_time_budget": bool(stats.timed_out),
        "technique": getattr(mod, "TECHNIQUE", "hypothesis generated-input search against an explicit oracle"),
    }
    if stats.failures:
        cov["failing_sub_checks"] = sorted({f[2] for f in stats.failures})
    ev = {
        "property_id": mod.ID,
        "tier": tier,
        "seed": int(seed),
        "level": mod.LEVEL,
        "coverage": cov,
        "assumptions": list(mod.ASSUMPTIONS),
        "wall_s": round(float(wall), 3),
        "violations": int(violations),
    }
    d = os.path.join(OUT, "evidence")
    os.makedirs(d, exist_ok=True)
    path = os.path.join(d, "%s.json" % mod.ID)
    tmp = path + ".tmp"
    with open(tmp, "w") as f:
        json.dump(ev, f, indent=1, allow_nan=False)
    os.replace(tmp, path)
    return path
