"""Shared generators.  A *case* is plain JSON (lists, dicts, str, int, bool, float); builders turn it into
batchie objects.  Construction over rejection: names/plates/samples are drawn as indices into small pools so that
collisions (equal names, the control name as a sample name, ...) are frequent."""
import numpy as np
from hypothesis import strategies as st

# any unicode except surrogates (not encodable as UTF-8, which every persisted name has to be)
# ... and except NUL: numpy's fixed-width '<U' dtype (which Screen requires) cannot represent trailing NULs and
# pandas' string hashing truncates at an embedded NUL, so NUL-containing names are not constructible inputs.
_chars = st.characters(blacklist_categories=("Cs",), blacklist_characters="\x00")
_raw_name = st.one_of(
    st.sampled_from(["", "a", "b", "ctl", "control", "A", " a", "a ", "é", "日本", "a\u0301", "x" * 9]),
    # families of names that are prefixes of each other and of unequal width (a cast to a narrower fixed-width type merges them)
    st.sampled_from(["MCF10A", "MCF10A-1", "MCF10A-2", "MCF1", "T47D", "T4", "ab", "abc", "abcdefgh", "abcdefgh-resistant"]),
    st.text(alphabet=_chars, max_size=5),
)


def np_norm(s):
    """numpy '<U' arrays strip trailing NULs: compare names as numpy will store them."""
    return str(np.array([s], dtype=str)[0])


names = _raw_name.map(np_norm)
# control names additionally must be storable as an HDF5 attribute (no NUL)
control_names = st.one_of(st.sampled_from(["", "ctl", "control", "DMSO"]), st.text(alphabet=_chars, max_size=4).map(np_norm)).filter(lambda s: "\x00" not in s)

DOSE_POOL = [0.0, -0.0, 5e-324, -5e-324, -1.0, 1.0, 2.0, 1e300, 0.5, 1e-3]
doses = st.one_of(st.sampled_from(DOSE_POOL), st.floats(allow_nan=False, allow_infinity=False, width=64))
positive_doses = st.one_of(st.sampled_from([5e-324, 1.0, 2.0, 1e300, 0.5, 1e-3]), st.floats(min_value=1e-300, max_value=1e300, allow_nan=False))

unit_obs = st.one_of(st.sampled_from([0.0, 1.0, 0.5, 0.01, 0.99, 1.2]), st.floats(min_value=0.0, max_value=1.2, allow_nan=False))
any_obs = st.one_of(
    st.sampled_from([0.0, -0.0, 1.0, float("nan"), 5e-324, -3.5, 1e300]),
    st.floats(allow_nan=True, allow_infinity=True, width=64),
)
finite_obs = st.one_of(st.sampled_from([0.0, -0.0, 1.0, 5e-324, -3.5, 1e300]), st.floats(allow_nan=False, allow_infinity=False, width=64))


@st.composite
def screen_case(
    draw,
    arity=None,
    min_rows=1,
    max_rows=14,
    obs=unit_obs,
    plate_names=None,
    max_pool=6,
    control=None,
    dose_strategy=doses,
    ensure_unobserved=0,
    ensure_observed=0,
    max_plates=None,
):
    a = draw(st.integers(1, 3)) if arity is None else arity
    ctl = draw(control_names) if control is None else control
    tpool = draw(st.lists(names, min_size=1, max_size=max_pool, unique=True))
    if draw(st.booleans()) and ctl not in tpool:
        tpool.append(ctl)
    spool = draw(st.lists(names, min_size=1, max_size=max(1, max_pool - 1), unique=True))
    if draw(st.integers(0, 5)) == 0 and ctl not in spool:
        spool.append(ctl)  # a sample called like the control
    if plate_names is None:
        ppool = draw(st.lists(names, min_size=1, max_size=max_plates or max_pool, unique=True))
    else:
        ppool = list(plate_names)
    dpool = draw(st.lists(dose_strategy, min_size=1, max_size=4))
    if draw(st.integers(0, 7)) == 0:
        # names and doses that read the same when written one after the other ("A1" at 0.5 and "A" at 10.5; "d1" at 12 and "d11" at 2)
        tpool = ["A", "A1", "d1", "d11"] + ([ctl] if ctl not in ("A", "A1", "d1", "d11") else [])
        dpool = [0.5, 10.5, 12.0, 2.0]
    if draw(st.integers(0, 2)) == 0:
        # doses that differ in the last bits only (0.1*3 next to 0.3, a value next to its float successor): distinct doses all the same
        d0 = dpool[0] if (dpool[0] == dpool[0] and abs(dpool[0]) not in (0.0, float("inf"))) else 0.3
        dpool = dpool + [float(np.nextafter(d0, np.inf)), d0 * (1.0 + 3e-13), 0.1 * 3, 0.3]
    n = draw(st.integers(min_rows, max_rows))
    rows = []
    for _ in range(n):
        rows.append(
            {
                "s": draw(st.sampled_from(spool)),
                "p": draw(st.sampled_from(ppool)),
                "t": [draw(st.sampled_from(tpool)) for _ in range(a)],
                "d": [draw(st.sampled_from(dpool)) for _ in range(a)],
                "o": draw(obs),
            }
        )
    plates = sorted({r["p"] for r in rows})
    observed = [p for p in plates if draw(st.booleans())]
    # constructive fix-up of observation-status preconditions (no rejection)
    unobs = [p for p in plates if p not in observed]
    while len(unobs) < min(ensure_unobserved, len(plates)) and observed:
        unobs.append(observed.pop())
    while len(observed) < min(ensure_observed, len(plates) - ensure_unobserved) and len(unobs) > ensure_unobserved:
        observed.append(unobs.pop())
    return {"arity": a, "control": ctl, "rows": rows, "observed": sorted(observed), "layout": draw(st.sampled_from(LAYOUTS))}


def arrays(case):
    rows = case["rows"]
    n = len(rows)
    a = case["arity"]
    tn = np.array([r["t"] for r in rows], dtype=str).reshape(n, a)
    td = np.array([r["d"] for r in rows], dtype=float).reshape(n, a)
    sn = np.array([r["s"] for r in rows], dtype=str).reshape(n)
    pn = np.array([r["p"] for r in rows], dtype=str).reshape(n)
    ob = np.array([float(r["o"]) for r in rows], dtype=float).reshape(n)
    obs_set = set(case.get("observed", []))
    mask = np.array([r["p"] in obs_set for r in rows], dtype=bool).reshape(n)
    layout = case.get("layout")
    if layout:
        tn, td, sn, pn, ob, mask = [relayout(x, layout) for x in (tn, td, sn, pn, ob, mask)]
    return tn, td, sn, pn, ob, mask


LAYOUTS = [None, None, None, "F", "strided", "wide"]  # (object arrays are refused by the Screen constructor)


def relayout(x, layout):
    """the same array VALUES in another memory representation a caller may legitimately hand over: column-major ("F", what
    DataFrame[[a, b]].to_numpy() gives), a strided view into a larger buffer ("strided"), wider string items than needed ("wide"),
    or an object array of Python strings ("object"; strings only)"""
    if layout == "F":
        return np.asfortranarray(x)
    if layout == "strided":
        big = np.empty(tuple(2 * d + 1 for d in x.shape), dtype=x.dtype)
        if x.dtype.kind == "U":
            big[...] = "?"
        elif x.dtype.kind == "f":
            big[...] = np.nan
        else:
            big[...] = 0
        view = big[tuple(slice(1, None, 2) for _ in x.shape)]
        view[...] = x
        return view
    if layout == "wide" and x.dtype.kind == "U":
        return x.astype("<U%d" % (x.dtype.itemsize // 4 + 7))
    if layout == "object" and x.dtype.kind == "U":
        return x.astype(object)
    if layout == "readonly":
        # arrays the caller protects (setflags(write=False), a read-only memory map, np.broadcast_to): not part of LAYOUTS - in-place
        # operations on a screen built from them may be refused, so only checks that expect that use it
        y = np.array(x, copy=True)
        y.setflags(write=False)
        return y
    return x


def build_screen(case, treatment_mapping=None, sample_mapping=None, rows=None):
    from batchie.data import Screen

    c = case if rows is None else dict(case, rows=rows)
    tn, td, sn, pn, ob, mask = arrays(c)
    return Screen(
        treatment_names=tn,
        treatment_doses=td,
        sample_names=sn,
        plate_names=pn,
        observations=ob,
        observation_mask=mask,
        control_treatment_name=c["control"],
        treatment_mapping=treatment_mapping,
        sample_mapping=sample_mapping,
    )


def bits(a):
    """bit pattern of a float array (so NaN payloads, -0.0 and denormals are compared exactly)."""
    return np.ascontiguousarray(np.asarray(a, dtype=np.float64)).view(np.uint64)


def same_bits(a, b):
    a = np.asarray(a, dtype=np.float64)
    b = np.asarray(b, dtype=np.float64)
    return a.shape == b.shape and np.array_equal(bits(a), bits(b))


def same_str(a, b):
    a = np.asarray(a)
    b = np.asarray(b)
    return a.shape == b.shape and [str(x) for x in a.ravel()] == [str(x) for x in b.ravel()]


def mapping_equal(m1, m2):
    if len(m1) != len(m2):
        return False
    if len(m1) == 3:
        return same_str(m1[0], m2[0]) and same_bits(m1[1], m2[1]) and np.array_equal(np.asarray(m1[2]), np.asarray(m2[2])) and len(m1[2]) == len(m2[2])
    return same_str(m1[0], m2[0]) and np.array_equal(np.asarray(m1[1]), np.asarray(m2[1])) and len(m1[1]) == len(m2[1])


# ---------------------------------------------------------------- posterior samples


def _finite(lo=-3.0, hi=3.0):
    return st.one_of(st.sampled_from([0.0, 1.0, -1.0, 0.5]), st.floats(min_value=lo, max_value=hi, allow_nan=False))


@st.composite
def effect_table(draw, pairs):
    """single-effect table of the interaction sample type: a *shared* parameter, one per holder."""
    return [[int(c), int(t), 1.0 if t == -1 else draw(st.floats(min_value=0.02, max_value=1.0))] for c, t in pairs]


@st.composite
def theta_params(draw, kind, n_samples, n_treatments, D=None, values=None, table=None, table_pairs=None):
    """JSON description of one posterior sample of a shipped type, sized for (n_samples, n_treatments)."""
    D = draw(st.integers(1, 3)) if D is None else D
    v = _finite() if values is None else values

    def mat(r, c):
        return [[draw(v) for _ in range(c)] for _ in range(r)]

    def vec(r):
        return [draw(v) for _ in range(r)]

    prec = draw(st.one_of(st.sampled_from([1.0, 100.0, 0.25]), st.floats(min_value=1e-3, max_value=1e3)))
    if kind == "additive":
        return {
            "kind": kind,
            "W": mat(n_samples, D),
            "W0": vec(n_samples),
            "V2": mat(n_treatments, D),
            "V1": mat(n_treatments, D),
            "V0": vec(n_treatments),
            "alpha": draw(v),
            "precision": prec,
        }
    if table is not None:
        table = [list(x) for x in table]
    else:
        table = []
    if table_pairs is not None and not table:
        for c, t in table_pairs:
            table.append([int(c), int(t), 1.0 if t == -1 else draw(st.floats(min_value=0.02, max_value=1.0))])
    return {"kind": kind, "W": mat(n_samples, D), "V2": mat(n_treatments, D), "precision": prec, "table": table}


def _mat(x, width=0):
    """rows x D matrix from nested lists; an empty list of rows keeps the latent width of the sibling matrix"""
    a = np.array(x, dtype=float)
    return a.reshape(len(x), -1) if a.size else np.zeros((len(x), width))


def build_theta(p):
    D = max([len(r) for k in ("W", "V2", "V1") for r in p.get(k, [])] or [0])
    if p["kind"] == "additive":
        from batchie.models.sparse_combo import SparseDrugComboMCMCSample

        return SparseDrugComboMCMCSample(
            W=_mat(p["W"], D),
            W0=np.array(p["W0"], dtype=float),
            V2=_mat(p["V2"], D),
            V1=_mat(p["V1"], D),
            V0=np.array(p["V0"], dtype=float),
            alpha=float(p["alpha"]),
            precision=float(p["precision"]),
        )
    from batchie.models.sparse_combo_interaction import SparseDrugComboInteractionMCMCSample

    return SparseDrugComboInteractionMCMCSample(
        W=_mat(p["W"], D),
        V2=_mat(p["V2"], D),
        precision=float(p["precision"]),
        single_effect_lookup={(int(c), int(t)): float(x) for c, t, x in p["table"]},
    )


def build_holder(params_list):
    from batchie.core import ThetaHolder

    h = ThetaHolder(n_thetas=len(params_list))
    for p in params_list:
        h.add_theta(build_theta(p))
    return h


# ---------------------------------------------------------------- "simple" arity-2 screens with predictable ids


def treat_name(k):
    return "t%d" % (k // 2), [1.0, 2.0][k % 2]


@st.composite
def simple_screen(
    draw,
    n_samples=(1, 4),
    n_treat=(1, 5),
    n_rows=(1, 10),
    n_plates=(1, 4),
    arity=2,
    obs=unit_obs,
    allow_control=True,
    allow_same=True,
    ensure_unobserved=0,
    ensure_observed=0,
    single_sample_plates=False,
):
    """Arity-1/2 screen over samples s0.. and conditions (t<k//2>, dose 1|2) plus control ('ctl', 0).  With fewer
    than 20 conditions the batchie ids coincide with the indices used here (ids are read back from the built
    Screen wherever they matter).  Returns a screen_case-compatible dict with extra keys ns / nt."""
    ns = draw(st.integers(*n_samples))
    nt = draw(st.integers(*n_treat))
    npl = draw(st.integers(*n_plates))
    n = draw(st.integers(*n_rows))
    name_salt = draw(st.one_of(st.none(), st.integers(0, 88))) if single_sample_plates else None
    rows = []
    for _ in range(n):
        s = draw(st.integers(0, ns - 1))
        ts = []
        for j in range(arity):
            lo = -1 if allow_control else 0
            t = draw(st.integers(lo, nt - 1))
            if not allow_same and j == 1 and t == ts[0] and t != -1:
                t = (t + 1) % nt if nt > 1 else -1
            ts.append(t)
        if single_sample_plates:
            j_ = draw(st.integers(0, npl - 1))
            # plate ids follow the sorted names: with a salt the plates of one sample are NOT contiguous in that order
            p = "p%d_%d" % (s, j_) if name_salt is None else "%02d_p%d_%d" % ((s * 37 + j_ * 11 + name_salt) % 89, s, j_)
        else:
            p = "p%d" % draw(st.integers(0, npl - 1))
        rows.append(
            {
                "s": "s%d" % s,
                "p": p,
                "t": ["ctl" if t == -1 else treat_name(t)[0] for t in ts],
                "d": [0.0 if t == -1 else treat_name(t)[1] for t in ts],
                "o": draw(obs),
            }
        )
    plates = sorted({r["p"] for r in rows})
    observed = [p for p in plates if draw(st.booleans())]
    unobs = [p for p in plates if p not in observed]
    while len(unobs) < min(ensure_unobserved, len(plates)) and observed:
        unobs.append(observed.pop())
    while len(observed) < min(ensure_observed, len(plates) - ensure_unobserved) and len(unobs) > ensure_unobserved:
        observed.append(unobs.pop())
    return {"arity": arity, "control": "ctl", "rows": rows, "observed": sorted(observed), "ns": ns, "nt": nt, "layout": draw(st.sampled_from(LAYOUTS))}


def space_mappings(ns, nt):
    """The mappings batchie produces for the full space s0..s<ns-1>, conditions 0..nt-1 plus control."""
    names = ["ctl"] + [treat_name(k)[0] for k in range(nt)]
    ds = [0.0] + [treat_name(k)[1] for k in range(nt)]
    ids = [-1] + list(range(nt))
    tm = (np.array(names, dtype=object), np.array(ds, dtype=float), np.array(ids, dtype=int))
    sm = (np.array(["s%d" % i for i in range(ns)], dtype=object), np.arange(ns, dtype=int))
    return tm, sm


def full_table_pairs(ns, nt):
    return [(c, t) for c in range(ns) for t in [-1] + list(range(nt))]


# ---------------------------------------------------------------- argument representations

CONTAINERS = ["list", "list", "tuple", "set", "frozenset", "dict_keys", "numpy_ints"]


def as_container(ids, kind):
    """the same plate ids in another container a caller may hand over (membership tests work on all of them)"""
    ids = [int(i) for i in ids]
    if kind == "tuple":
        return tuple(ids)
    if kind == "set":
        return set(ids)
    if kind == "frozenset":
        return frozenset(ids)
    if kind == "dict_keys":
        return dict.fromkeys(ids).keys()
    if kind == "numpy_ints":
        return [np.int64(i) for i in ids]
    return list(ids)


def call_with_container(f, ids, kind):
    """f(container); a TypeError for a container other than a list is a refusal of that representation (the annotations say
    list), answered by calling again with a list - a wrong RESULT for such a container is what the caller checks"""
    if kind in (None, "list"):
        return f(list(ids)), "list"
    try:
        return f(as_container(ids, kind)), kind
    except TypeError:
        return f(list(ids)), "list(refused:%s)" % kind
