"""C10 - posterior-sample collections persist exactly and keep chain-major order."""
import os

import numpy as np
from hypothesis import strategies as st

from vf import strategies as S
from vf import tmp
from vf.cli import run_cli
from vf.engine import Violation, require

ID = "C10"
LEVEL = "exploration"
TECHNIQUE = "Hypothesis-generated chains of posterior samples; save/load round trip compared bit-for-bit, concat order model, evaluate_model CLI column/chain-id differential"
RULE = (
    "1..4 chains of 1..13 samples (>=10 forces the '10'<'2' string-order case) of one shipped type, parameters from arbitrary finite float64 up to 1e100 "
    "(denormals, +-0.0, values that change under a float32 cast), empty or full single-effect table, chain files given to evaluate_model in a drawn order (half of the cases: files in directories named with glob characters, spaces or non-ASCII letters); "
    "additionally a collection filled by a live model of that type across two add_observations calls (2 samples before, 2 after; and the concatenation of the two halves) is saved and reloaded; refusals: add beyond size, get_theta(-1/len), saving an empty holder. Non-trivial = (>=2 chains and a chain with >=10 samples) or a value that changes "
    "under float32. distinct = distinct case JSON."
    ' Also: fixed cases in which the collection is written, read and re-written by separate interpreter processes.'
    ' A third of the CLI cases name every chain file thetas.h5 in a directory of its own; in a fifth of the cases every fourth write request of one save fails in turn with ENOSPC.'
    ' A quarter of the CLI cases name one chain file twice, another quarter pass a saved concatenation of two chains as the first file.'
    ' Half the CLI cases also feed the command a chain file holding fewer samples than it declares.'
)
ASSUMPTIONS = [
    "NaN parameters are not generated (NaN payload equality through HDF5 is not part of the claim); magnitudes <= 1e100 so predictions stay finite",
    "the single-effect table is a shared parameter: one table per collection",
    "holders are complete when saved (C17 establishes that sampling leaves them complete)",
]


def budgets(tier):
    if tier == "quick":
        return {"examples": 400, "max_s": 80, "shrink_s": 20, "shards": 1}
    return {"examples": 1200, "max_s": 700, "shrink_s": 90, "shards": 16}


_val = st.one_of(
    st.sampled_from([5e-324, -5e-324, 0.0, -0.0, 1e-310, 0.1, 1.0 / 3.0, 16777217.0, 1e100, -1e100, 1.0]),
    st.floats(min_value=-1e100, max_value=1e100, allow_nan=False),
    st.floats(min_value=-4, max_value=4, allow_nan=False),
)


@st.composite
def _case(draw):
    sc = draw(S.simple_screen(n_rows=(1, 6), n_samples=(1, 3), n_treat=(1, 3)))
    kind = draw(st.sampled_from(["additive", "interaction"]))
    empty_table = kind == "interaction" and draw(st.booleans())
    table = None
    if kind == "interaction":
        # insertion order of the table is arbitrary (e.g. several add_observations calls): draw a permutation of the keys
        table = [] if empty_table else draw(S.effect_table(draw(st.permutations(S.full_table_pairs(sc["ns"], sc["nt"])))))
    D = draw(st.integers(1, 2))
    n_chains = draw(st.integers(1, 4))
    chains = []
    for _ in range(n_chains):
        n = draw(st.sampled_from([1, 2, 3, 10, 11, 13]))
        # one fully drawn sample, the others differ in a few entries (keeps generation cheap, every sample distinct)
        base = draw(S.theta_params(kind, sc["ns"], sc["nt"], D=D, values=_val, table=table))
        chain = []
        for i in range(n):
            p = {k: (v if not isinstance(v, list) else [list(x) if isinstance(x, list) else x for x in v]) for k, v in base.items()}
            p["W"][0][0] = draw(_val)
            p["V2"][0][0] = draw(_val)
            p["precision"] = draw(st.floats(min_value=1e-3, max_value=1e3))
            if kind == "additive":
                p["alpha"] = float(i) + draw(st.sampled_from([0.0, 0.1, 1e-310]))
            chain.append(p)
        chains.append(chain)
    return {"screen": sc, "kind": kind, "chains": chains, "order_seed": draw(st.integers(0, 10**6)), "cli": draw(st.integers(0, 2)) == 0 and not empty_table}


def strategy(tier):
    return _case()


def _xproc_params(kind, n, seed):
    """posterior-sample parameters as plain lists (a pure function of the arguments; built alike by the writing and the comparing process)"""
    r = np.random.default_rng(seed)
    ns, nt, D = 3, 4, 2
    out = []
    pairs = [(c, t) for c in range(ns) for t in list(range(nt)) + [-1]]
    for i in range(n):
        p = {"kind": kind, "W": r.normal(size=(ns, D)).tolist(), "V2": r.normal(size=(nt, D)).tolist(), "precision": float(r.uniform(0.5, 50))}
        if kind == "additive":
            p.update(W0=r.normal(size=ns).tolist(), V1=r.normal(size=(nt, D)).tolist(), V0=r.normal(size=nt).tolist(), alpha=0.1 * i)
            if i % 2:
                p["W0"][0], p["V0"][1] = -0.0, 5e-324
        else:
            order = r.permutation(len(pairs)) if i == 0 else order  # noqa: F821  (one table order per collection, not sorted)
            p["table"] = [[pairs[j][0], pairs[j][1], 1.0 if pairs[j][1] == -1 else float(0.05 + 0.9 * ((j * 37) % 100) / 100.0)] for j in order]
        out.append(p)
    return out


def exhaustive(tier):
    # the collection written by one interpreter process and read (then written again) by others with other string-hash salts,
    # as the pipeline's stages do
    for kind, n, seed in [("additive", 5, 1), ("interaction", 4, 2)] + ([("additive", 33, 3), ("interaction", 17, 4), ("additive", 1, 5)] if tier != "quick" else []):
        yield {"xproc": {"kind": kind, "n": n, "seed": seed}, "hashseeds": [300 + seed, 4000 - 7 * seed]}


def _check_xproc(case):
    from batchie.core import ThetaHolder
    from vf import xproc

    want = S.build_holder(_xproc_params(**case["xproc"]))
    p1, p2 = tmp.fresh("xproc_thetas_a.h5"), tmp.fresh("xproc_thetas_b.h5", odd=case["xproc"]["seed"])
    try:
        ok, text = xproc.python("from checks import c10_theta_persist as c\nS.build_holder(c._xproc_params(**params['g'])).save_h5(params['path'])\n", case["hashseeds"][0], g=case["xproc"], path=p1)
        require(ok, "xproc.save_failed", lambda: "saving the collection in its own process failed: %s" % text[-600:])
        ok, text = xproc.python("from batchie.core import ThetaHolder\nThetaHolder.load_h5(params['src']).save_h5(params['dst'])\n", case["hashseeds"][1], src=p1, dst=p2)
        require(ok, "xproc.resave_failed", lambda: "loading and saving the collection in a third process failed: %s" % text[-600:])
        for tag, p in (("saved_by_another_process", p1), ("passed_through_two_other_processes", p2)):
            got = ThetaHolder.load_h5(p)
            require(len(got.thetas) == len(want.thetas) and int(got.n_thetas) == int(want.n_thetas), tag + ".count", lambda: "%d samples written, %d read" % (len(want.thetas), len(got.thetas)))
            for k, (a, b) in enumerate(zip(want.thetas, got.thetas)):
                require(type(a) is type(b), tag + ".type", "sample type changed")
                msg = _same_theta(a, b)
                require(msg is None, tag + ".parameters", lambda: "sample %d: %s" % (k, msg))
    finally:
        tmp.cleanup(p1, p2)
    return {"nontrivial": True, "labels": ["one-process-per-step", case["xproc"]["kind"]]}


def _param_items(theta):
    d = dict(theta.private_parameters_dict())
    d.update({"shared." + k: v for k, v in theta.shared_parameters_dict().items()})
    return d


def _same_theta(a, b):
    da, db = _param_items(a), _param_items(b)
    if sorted(da) != sorted(db):
        return "parameter names differ: %r vs %r" % (sorted(da), sorted(db))
    for k in da:
        x, y = da[k], db[k]
        if isinstance(x, dict):
            continue
        x, y = np.asarray(x), np.asarray(y)
        if x.shape != y.shape:
            return "parameter %s shape %r -> %r" % (k, x.shape, y.shape)
        if x.dtype.kind == "f" or y.dtype.kind == "f":
            if not S.same_bits(x, y):
                return "parameter %s changed: %r -> %r" % (k, x.tolist(), y.tolist())
        elif not np.array_equal(x, y):
            return "parameter %s changed: %r -> %r" % (k, x.tolist(), y.tolist())
    if hasattr(a, "single_effect_lookup"):
        ta = {(int(k[0]), int(k[1])): float(v) for k, v in a.single_effect_lookup.items()}
        tb = {(int(k[0]), int(k[1])): float(v) for k, v in b.single_effect_lookup.items()}
        if ta != tb:
            return "single-effect table changed"
    return None


def _predict(t, screen):
    try:
        with np.errstate(all="ignore"):
            return np.asarray(t.predict_viability(screen), dtype=float)
    except KeyError:
        return "KeyError"  # a (sample, treatment) of the screen is not in the sample's single-effect table


def _model_built(case, screen, paths):
    """collections filled by a live model of the case's type: samples are taken, the model receives a second batch of
    observations, further samples are taken into the same collection; the collection as it is at save time must reload
    sample by sample (parameters, table, predictions); so must the concatenation of a before- and an after-collection"""
    from batchie.core import ThetaHolder
    from batchie.data import ExperimentSpace

    if screen.size < 2:
        return None
    if case["kind"] == "additive":
        from batchie.models.sparse_combo import SparseDrugCombo as cls
    else:
        from batchie.models.sparse_combo_interaction import SparseDrugComboInteraction as cls
    seed = case["order_seed"]
    first = np.arange(screen.size) < (1 + seed % (screen.size - 1))
    try:
        model = cls(experiment_space=ExperimentSpace.from_screen(screen), n_embedding_dimensions=len(case["chains"][0][0]["W"][0]))
        model.set_rng(np.random.default_rng(seed))
        h = ThetaHolder(n_thetas=4)
        before, after = ThetaHolder(n_thetas=2), ThetaHolder(n_thetas=2)
        with np.errstate(all="ignore"):
            model.add_observations(screen.subset(first))
            for _ in range(2):
                model.step()
                t = model.get_model_state()
                h.add_theta(t)
                before.add_theta(t)
            model.add_observations(screen.subset(~first))
            for _ in range(2):
                model.step()
                t = model.get_model_state()
                h.add_theta(t)
                after.add_theta(t)
    except (KeyError, ValueError, np.linalg.LinAlgError):
        return "model-refused-screen"  # the model's own domain (e.g. a combination without its single agents); not this property
    for name, coll in (("model_built", h), ("model_built.concat", ThetaHolder.concat([before, after]))):
        p = tmp.fresh("built.h5")
        paths.append(p)
        coll.save_h5(p)
        l = ThetaHolder.load_h5(p)
        require(len(l.thetas) == len(coll.thetas), name + ".count", lambda: "%d samples saved, %d loaded" % (len(coll.thetas), len(l.thetas)))
        for k, (a, b) in enumerate(zip(coll.thetas, l.thetas)):
            msg = _same_theta(a, b)
            require(msg is None, name + ".parameters", lambda: "sample %d of a collection filled across two batches of observations: %s" % (k, msg))
            pa, pb = _predict(a, screen), _predict(b, screen)
            require((isinstance(pa, str) and isinstance(pb, str)) or (not isinstance(pa, str) and not isinstance(pb, str) and S.same_bits(pa, pb)), name + ".predictions", lambda: "sample %d predicts %r after reload, %r before" % (k, pb if isinstance(pb, str) else pb.tolist(), pa if isinstance(pa, str) else pa.tolist()))
    return "model-built-collection"


def check_case(case):
    if "xproc" in case:
        return _check_xproc(case)
    from batchie.core import ThetaHolder
    from batchie.models.main import ModelEvaluation

    sc = case["screen"]
    tm, sm = S.space_mappings(sc["ns"], sc["nt"])
    total_ = sum(len(ch_) for ch_ in case["chains"])
    if case["cli"] and case["order_seed"] % 2 == 0 and total_ <= 60:
        # as many experiments as posterior samples in all chains together: the prediction matrix is square
        sc = dict(sc, rows=[sc["rows"][i_ % len(sc["rows"])] for i_ in range(total_)])
    screen = S.build_screen(dict(sc, observed=sorted({r["p"] for r in sc["rows"]})), treatment_mapping=tm, sample_mapping=sm)
    chains = case["chains"]
    if case["kind"] == "interaction" and case["order_seed"] % 3 != 0:
        # the chains' tables agree to about nine digits but not bit for bit (each chain file is a collection of its own)
        chains = [[dict(p_, table=[[c_, t_, (x_ if t_ == -1 else x_ * (1.0 - ci_ * 3e-10))] for c_, t_, x_ in p_["table"]]) for p_ in ch_] for ci_, ch_ in enumerate(chains)]
    # consecutive samples whose blocks are EQUAL as numbers but not bit for bit: every zero of W0 / V0 / V1 of the odd samples is -0.0
    flip_ = lambda x_: [flip_(y_) for y_ in x_] if isinstance(x_, list) else (-x_ if x_ == 0 else x_)
    chains = [[(dict(p_, **{k_: flip_(p_[k_]) for k_ in ("W0", "V0", "V1") if k_ in p_}) if (j_ % 2 == 1 and case["order_seed"] % 2 == 0) else p_) for j_, p_ in enumerate(ch_)] for ch_ in chains]
    holders = [S.build_holder(ch) for ch in chains]
    paths = []
    try:
        files = []
        loaded = []
        with np.errstate(all="ignore"):
            for ci, h in enumerate(holders):
                # in half the cases the chain files lie in directories whose names hold glob characters, spaces or non-ASCII letters
                # ... and in a third of the cases every chain file is called thetas.h5 and lies in a directory of its own
                same_name = case["order_seed"] % 3 == 1
                p = tmp.fresh("thetas.h5" if same_name else "thetas_%d.h5" % ci, odd=(case["order_seed"] // 3 + ci) if case["order_seed"] % 2 else None, own_dir=same_name)
                paths.append(p)
                if ci > 0:
                    holders[ci - 1].save_h5(p)  # the path already holds another chain: saving replaces it
                h.save_h5(p)
                files.append(p)
                l = ThetaHolder.load_h5(p)
                loaded.append(l)
                require(int(l.n_thetas) == int(h.n_thetas), "roundtrip.n_thetas", lambda: "declared size %r -> %r" % (h.n_thetas, l.n_thetas))
                require(len(l.thetas) == len(h.thetas), "roundtrip.count", lambda: "%d samples saved, %d loaded" % (len(h.thetas), len(l.thetas)))
                require(bool(l.is_complete), "roundtrip.complete", "loaded collection is not complete")
                for k, (a, b) in enumerate(zip(h.thetas, l.thetas)):
                    require(type(a) is type(b), "roundtrip.type", "sample type changed")
                    msg = _same_theta(a, b)
                    require(msg is None, "roundtrip.parameters", lambda: "chain %d sample %d: %s" % (ci, k, msg))
                    pa = np.asarray(a.predict_conditional_mean(screen), dtype=float)
                    pb = np.asarray(b.predict_conditional_mean(screen), dtype=float)
                    require(S.same_bits(pa, pb), "roundtrip.predictions", lambda: "chain %d sample %d predicts %r after reload, %r before" % (ci, k, pb.tolist(), pa.tolist()))
                # second cycle is a fixed point
                p2 = tmp.fresh("thetas_%d_again.h5" % ci)
                paths.append(p2)
                l.save_h5(p2)
                l2 = ThetaHolder.load_h5(p2)
                require(len(l2.thetas) == len(h.thetas) and all(_same_theta(a, b) is None for a, b in zip(h.thetas, l2.thetas)), "roundtrip.fixed_point", "second save/load changed the collection")

            if case["order_seed"] % 5 == 0:
                # one collection saved with a storage failure injected into each of its write requests in turn, over an older
                # archive: a save that returns normally has saved
                from vf import iofault

                def fault_paths(k):
                    q = tmp.fresh("fault_%d.h5" % k)
                    paths.append(q)
                    holders[-1].save_h5(q)
                    return q

                def fault_verify(q):
                    lf = ThetaHolder.load_h5(q)
                    msgs = [_same_theta(a, b) for a, b in zip(holders[0].thetas, lf.thetas)]
                    require(len(lf.thetas) == len(holders[0].thetas) and all(m_ is None for m_ in msgs), "save_under_faults", lambda: "save_h5 returned normally although one of its write requests failed (disk full), and the file does not hold the collection that was saved: %r" % ([m_ for m_ in msgs if m_][:1],))

                iofault.save_under_faults(holders[0].save_h5, fault_verify, fault_paths, require, "save_under_faults", "ThetaHolder.save_h5", points=range(case["order_seed"] % 4, 200, 4))
            rng = np.random.default_rng(case["order_seed"])
            order = [int(i) for i in rng.permutation(len(files))]
            parts = [ThetaHolder.load_h5(files[i]) for i in order]
            sizes_before = [(len(p_.thetas), int(p_.n_thetas)) for p_ in parts]
            cat = ThetaHolder.concat(parts)
            flat = [t for i in order for t in holders[i].thetas]
            # concatenation leaves its inputs alone: the per-chain collections can be used (and concatenated) again
            require([(len(p_.thetas), int(p_.n_thetas)) for p_ in parts] == sizes_before, "concat.inputs_untouched", lambda: "per-chain collections changed size by being concatenated: %r -> %r" % (sizes_before, [(len(p_.thetas), int(p_.n_thetas)) for p_ in parts]))
            cat2 = ThetaHolder.concat(list(reversed(parts)))
            flat2 = [t for i in reversed(order) for t in holders[i].thetas]
            require(len(cat2.thetas) == len(flat2) and all(_same_theta(a, b) is None for a, b in zip(flat2, cat2.thetas)), "concat.repeatable", lambda: "a second concatenation (reversed chain order) of the same collections holds %d samples, expected %d in chain-major order" % (len(cat2.thetas), len(flat2)))
            for p_, i in zip(parts, order):
                require(len(p_.thetas) == len(holders[i].thetas) and all(_same_theta(a, b) is None for a, b in zip(holders[i].thetas, p_.thetas)), "concat.inputs_untouched", "a per-chain collection changed content by being concatenated")
            require(len(cat.thetas) == len(flat) and int(cat.n_thetas) == len(flat), "concat.size", lambda: "concatenation holds %d samples (declared %r), expected %d" % (len(cat.thetas), cat.n_thetas, len(flat)))
            for k, (a, b) in enumerate(zip(flat, cat.thetas)):
                msg = _same_theta(a, b)
                require(msg is None, "concat.chain_major_order", lambda: "position %d of the concatenation is not the expected sample (order %r): %s" % (k, order, msg))

            if case["cli"]:
                sfile = tmp.fresh("screen.h5", odd=(case["order_seed"] // 5) if case["order_seed"] % 2 else None)
                out = tmp.fresh("evaluation.h5", odd=(case["order_seed"] // 7) if case["order_seed"] % 2 else None)
                paths += [sfile, out]
                screen.save_h5(sfile)
                if case["order_seed"] % 4 == 2:
                    # the same chain file named twice on the command line: two chains with the same samples
                    order = order + [order[0]]
                    flat = flat + list(holders[order[0]].thetas)
                cli_files = [files[i] for i in order]
                exp_chain = [pos for pos, i in enumerate(order) for _ in holders[i].thetas]
                if case["order_seed"] % 4 == 3 and len(order) >= 2:
                    # the first file on the command line is itself a saved concatenation of two chains: to the command it is one
                    # file, hence one chain
                    mfile = tmp.fresh("merged.h5")
                    paths.append(mfile)
                    ThetaHolder.concat([ThetaHolder.load_h5(files[order[0]]), ThetaHolder.load_h5(files[order[1]])]).save_h5(mfile)
                    cli_files = [mfile] + cli_files[2:]
                    n01 = len(holders[order[0]].thetas) + len(holders[order[1]].thetas)
                    # (samples of one collection share one single-effect table: the reference columns are those of the merged
                    # collection as it loads, not of the two chains it was made from)
                    flat = list(ThetaHolder.load_h5(mfile).thetas) + flat[n01:]
                    exp_chain = [0] * n01 + [pos + 1 for pos, i in enumerate(order[2:]) for _ in holders[i].thetas]
                run_cli("evaluate_model", ["--screen", sfile, "--thetas"] + cli_files + ["--output", out], verbose=case["order_seed"] % 4 == 1)
                me = ModelEvaluation.load_h5(out)
                preds = np.asarray(me.predictions, dtype=float)
                require(preds.shape == (screen.size, len(flat)), "evaluate.shape", lambda: "predictions shape %r, expected %r" % (preds.shape, (screen.size, len(flat))))
                require([int(x) for x in me.chain_ids] == exp_chain, "evaluate.chain_ids", lambda: "chain ids %r, expected %r" % ([int(x) for x in me.chain_ids], exp_chain))
                for j, t in enumerate(flat):
                    col = np.asarray(t.predict_viability(screen), dtype=float)
                    require(S.same_bits(preds[:, j], col), "evaluate.columns_match_chain_ids", lambda: "prediction column %d is not the prediction of sample %d in chain-major order" % (j, j))

            if case["cli"] and case["order_seed"] % 2 == 0:
                # a chain file of a run that was stopped early (fewer samples than its declared size) among the command's inputs: the
                # command refuses it - or, if it does write an evaluation, every column is a real sample's prediction under the
                # right chain id
                from vf.cli import CliExit

                short_ = ThetaHolder(n_thetas=len(holders[0].thetas) + 2)
                for t_ in holders[0].thetas:
                    short_.add_theta(t_)
                sf_, so_ = tmp.fresh("stopped_early.h5"), tmp.fresh("evaluation_partial.h5")
                paths += [sf_, so_]
                try:
                    short_.save_h5(sf_)
                    saved_ = True
                except ValueError:
                    saved_ = False  # (an unfinished collection cannot be saved: nothing to feed the command)
                if saved_:
                    try:
                        run_cli("evaluate_model", ["--screen", sfile, "--thetas", sf_] + files[1:2] + ["--output", so_])
                        returned_ = True
                    except (CliExit, ValueError, IndexError, KeyError):
                        returned_ = False
                    if returned_ and os.path.exists(so_):
                        me_ = ModelEvaluation.load_h5(so_)
                        ref_ = list(holders[0].thetas) + (list(ThetaHolder.load_h5(files[1]).thetas) if len(files) > 1 else [])
                        ids_ = [0] * len(holders[0].thetas) + ([1] * (len(ref_) - len(holders[0].thetas)))
                        pr_ = np.asarray(me_.predictions, dtype=float)
                        require(pr_.shape == (screen.size, len(ref_)) and [int(x) for x in me_.chain_ids] == ids_, "evaluate.unfinished_chain_file", lambda: "evaluate_model accepted a chain file holding %d of %d declared samples and wrote %r prediction columns with chain ids %r; the files hold %d samples with chain ids %r" % (len(holders[0].thetas), len(holders[0].thetas) + 2, pr_.shape, [int(x) for x in me_.chain_ids], len(ref_), ids_))

        built = _model_built(case, screen, paths)

        # refusals
        h = holders[0]
        full = ThetaHolder(n_thetas=len(h.thetas))
        for t in h.thetas:
            full.add_theta(t)
        try:
            full.add_theta(h.thetas[0])
        except ValueError:
            pass
        else:
            raise Violation("refuse.grow_beyond_size", "a complete collection accepted another sample")
        require(len(full.thetas) == len(h.thetas), "refuse.grow_beyond_size.state", "collection grew although it refused")
        for idx in (-1, len(h.thetas)):
            try:
                full.get_theta(idx)
            except ValueError:
                continue
            raise Violation("refuse.out_of_range", "get_theta(%d) on %d samples did not raise" % (idx, len(h.thetas)))
        try:
            pe = tmp.fresh("empty.h5")
            paths.append(pe)
            ThetaHolder(n_thetas=2).save_h5(pe)
        except ValueError:
            pass
        else:
            raise Violation("refuse.save_empty", "an empty collection was saved")
    finally:
        tmp.cleanup(*paths)

    sizes = [len(c) for c in case["chains"]]
    f32 = any(np.float32(v) != v for ch in case["chains"] for p in ch for v in (p["W"][0][0], p["V2"][0][0]))
    labels = [case["kind"], "chains=%d" % len(sizes)]
    if built:
        labels.append(built)
    if max(sizes) >= 10:
        labels.append(">=10-samples")
    if case["cli"]:
        labels.append("cli")
    if case["kind"] == "interaction" and not case["chains"][0][0]["table"]:
        labels.append("empty-table")
    return {"nontrivial": (len(sizes) >= 2 and max(sizes) >= 10) or f32, "labels": labels}
