"""C01 - screen identifiers are a faithful, dense encoding of names and doses."""
import numpy as np
from hypothesis import strategies as st

from vf import strategies as S
from vf.engine import Violation, require, Skip

ID = "C01"
LEVEL = "exploration"
TECHNIQUE = "Hypothesis-generated screens checked against an independent dict model of the encoding (decode, control rule, density, bijection, supplied-mapping obedience/rejection)"
RULE = (
    "screens of arity 1..3 with 0..14 rows drawn from small pools of unicode names (incl. '', the control name in any "
    "column, a sample named like the control) and doses (0, -0.0, +-5e-324, negative, 1e300, repeats); half the cases "
    "are encoded with the mappings batchie produced for a strict superset; negative cases corrupt such a mapping "
    "(drop a needed row, gap, shift, float ids) and must be rejected; 8% of the cases are names x doses designs of 1..300 names and 1..300 doses (condition counts across 2**7, 2**8, 2**15, 2**16; up to 300 samples / 260 plates), encoded plainly or under the full design's mapping; plain screens additionally go through up to three in-place plate merges (handles taken once). Non-trivial = both control kinds (by name and by "
    "dose) occur in one column, or arity != 2, or a strict-superset mapping is supplied, or a negative case, or a design case. distinct = distinct case JSON."
    ' A quarter of the plain cases are built from read-only arrays (an in-place merge may then be refused; the screen is re-checked).'
    ' Superset cases also build the one-plate-per-sample screen from ONE array object used as sample names and plate names.'
)
ASSUMPTIONS = [
    "names contain no NUL character (numpy's '<U' dtype strips trailing NULs and pandas' string hashing truncates at NUL, so such names are not constructible screen inputs); no surrogates",
    "NaN/inf doses are outside the stated quantifier (finite doses)",
    "a supplied mapping is one batchie itself produced for a superset of the data (same control name), or a corruption of it for the rejection cases",
]


def budgets(tier):
    if tier == "quick":
        return {"examples": 1500, "max_s": 80, "shrink_s": 20, "shards": 1}
    return {"examples": 6000, "max_s": 700, "shrink_s": 90, "shards": 16}


BOUNDARY = [11, 12, 16, 23, 127, 128, 129, 182, 255, 256, 257]


@st.composite
def _grid(draw, big):
    """a full or partial names x doses design, described by its parameters (rows are built in _grid_sc)"""
    if big:
        # both factors large: the condition count crosses 2**15 / 2**16
        k, m = draw(st.sampled_from([(182, 182), (140, 300), (257, 129), (256, 256), (300, 219)]))
    else:
        k = draw(st.one_of(st.integers(1, 40), st.sampled_from(BOUNDARY)))
        m = draw(st.one_of(st.integers(1, 40), st.sampled_from(BOUNDARY[:6])))
        if k * m > 6000:
            m = max(1, 6000 // k)
    return {
        "n_names": k,
        "n_doses": m,
        "arity": draw(st.sampled_from([1, 2, 2, 3])),
        "control": draw(st.sampled_from(["", "DMSO", "drug3", "control"])),
        "zero_dose": draw(st.booleans()),
        "used": draw(st.sampled_from([1.0, 1.0, 0.7, 0.3])),
        "perm": draw(st.integers(0, 2**31 - 1)),
        "n_samples": draw(st.sampled_from([1, 3, 130, 300])),
        "n_plates": draw(st.sampled_from([1, 4, 129, 260])),
    }


def _grid_sc(g):
    """rows of the design: every used (name, dose) cell exactly once, cells dealt to the treatment columns in a drawn order"""
    rng = np.random.default_rng(g["perm"])  # a pure function of the case
    names = ["drug%d" % i for i in range(g["n_names"])]
    dose_values = [0.25 * (j + 1) for j in range(g["n_doses"])]
    if g["zero_dose"]:
        dose_values[0] = 0.0
    cells = [(n_, d_) for n_ in names for d_ in dose_values]
    order = rng.permutation(len(cells))
    order = order[: max(1, int(len(cells) * g["used"]))]
    a = g["arity"]
    while len(order) % a:
        order = np.append(order, order[0])
    rows = []
    for r_i in range(len(order) // a):
        cs = [cells[int(c)] for c in order[r_i * a : (r_i + 1) * a]]
        rows.append({"s": "s%d" % (r_i % g["n_samples"]), "p": "p%d" % ((r_i * 7) % g["n_plates"]), "t": [c[0] for c in cs], "d": [c[1] for c in cs], "o": 0.5})
    return {"arity": a, "control": g["control"], "rows": rows, "observed": []}


@st.composite
def _case(draw):
    which = draw(st.integers(0, 99))
    if which < 8:
        # large designs: many distinct names x doses (the sizes real screens have), plain or under a superset mapping
        return {"mode": "grid", "grid": draw(_grid(big=which == 0)), "superset": draw(st.booleans())}
    sc = draw(S.screen_case(min_rows=0, max_rows=14))
    mode = draw(st.sampled_from(["plain", "plain", "superset", "superset", "neg"]))
    case = {"screen": sc, "mode": mode, "merges": draw(st.lists(st.tuples(st.integers(0, 9), st.integers(0, 9)), max_size=3)), "readonly": draw(st.integers(0, 3)) == 0}
    if mode != "plain":
        # extra rows from (mostly) the same pools: re-draw a screen with the same control/arity and reuse its rows
        extra = draw(S.screen_case(arity=sc["arity"], control=sc["control"], min_rows=0, max_rows=8))
        case["extra"] = extra["rows"]
    if mode == "neg":
        case["neg"] = draw(st.sampled_from(["drop_treatment", "drop_sample", "gap_t", "gap_s", "shift_t", "float_t", "float_s"]))
        case["neg_index"] = draw(st.integers(0, 50))
    return case


def strategy(tier):
    return _case()


def exhaustive(tier):
    # explicit examples: the empty screen for each arity
    for a in (1, 2, 3):
        yield {"screen": {"arity": a, "control": "", "rows": [], "observed": []}, "mode": "plain"}
    # fixed large designs: condition counts around 2**7, 2**8, 2**15 (one each in the quick tier, more in the thorough tier)
    fixed = [(12, 12, 2), (16, 16, 1), (129, 2, 2), (182, 182, 2)]
    if tier != "quick":
        fixed += [(140, 300, 2), (256, 256, 3), (257, 129, 1)]
    for k, m, a in fixed:
        yield {"mode": "grid", "superset": False, "grid": {"n_names": k, "n_doses": m, "arity": a, "control": "DMSO", "zero_dose": True, "used": 1.0, "perm": k * m, "n_samples": 130, "n_plates": 129}}


def _is_control(name, dose, ctl):
    return name == ctl or dose <= 0


def _check_screen(s, sc, supplied_t=None, supplied_s=None):
    from batchie.data import ExperimentSpace

    ctl = sc["control"]
    rows = sc["rows"]
    n, a = len(rows), sc["arity"]
    tid = np.asarray(s.treatment_ids)
    require(tid.shape == (n, a), "ids.shape", lambda: "treatment_ids shape %r, expected %r" % (tid.shape, (n, a)))
    mn, md, mi = s.treatment_mapping
    mn = [str(x) for x in mn]
    md = [float(x) for x in md]
    mi = [int(x) for x in mi]
    require(len(mn) == len(md) == len(mi), "mapping.lengths", "treatment mapping arrays differ in length")
    by_id = {}
    for name, dose, i in zip(mn, md, mi):
        if i != -1:
            require(i not in by_id, "mapping.injective", lambda: "id %d listed twice in the treatment mapping" % i)
            by_id[i] = (name, dose)
    require(sorted(by_id) == list(range(len(by_id))), "mapping.dense", lambda: "non-control mapping ids are %r" % sorted(by_id))
    control_rows = {(name, dose) for name, dose, i in zip(mn, md, mi) if i == -1}
    pair_to_id = {}
    both_kinds = [set() for _ in range(a)]
    for r_i, r in enumerate(rows):
        for j in range(a):
            name, dose = r["t"][j], float(r["d"][j])
            i = int(tid[r_i, j])
            ctrl = _is_control(name, dose, ctl)
            if ctrl:
                both_kinds[j].add("name" if name == ctl else "dose")
            require((i == -1) == ctrl, "control.sentinel", lambda: "row %d col %d (%r, %r) control=%s but id=%d (control name %r)" % (r_i, j, name, dose, ctrl, i, ctl))
            if i == -1:
                require(any(name == cn and dose == cd for cn, cd in control_rows), "decode.control", lambda: "control (%r,%r) not among the -1 rows of the mapping" % (name, dose))
            else:
                require(i in by_id, "decode.missing", lambda: "id %d not in mapping" % i)
                dn, dd = by_id[i]
                require(dn == name and dd == dose and np.signbit(dd) == np.signbit(dose), "decode.exact", lambda: "id %d decodes to (%r,%r), experiment has (%r,%r)" % (i, dn, dd, name, dose))
                prev = pair_to_id.setdefault((name, dose), i)
                require(prev == i, "ids.functional", lambda: "(%r,%r) has ids %d and %d" % (name, dose, prev, i))
    require(len(set(pair_to_id.values())) == len(pair_to_id), "ids.injective", "two different (name,dose) share an id")
    if supplied_t is None:
        require(sorted(pair_to_id.values()) == list(range(len(pair_to_id))), "ids.dense", lambda: "non-control ids %r are not 0..n-1" % sorted(pair_to_id.values()))
        # mapping lists exactly the data's conditions
        require(len(by_id) == len(pair_to_id), "mapping.exact", "mapping lists conditions absent from the data although none was supplied")
    else:
        require(S.mapping_equal(s.treatment_mapping, supplied_t), "mapping.verbatim", "supplied treatment mapping was not kept verbatim")
        sup = {(str(nm), float(d)): int(i) for nm, d, i in zip(*supplied_t)}
        for (name, dose), i in pair_to_id.items():
            require(sup.get((name, dose)) == i, "mapping.followed", lambda: "(%r,%r) got id %d, supplied mapping says %r" % (name, dose, i, sup.get((name, dose))))

    for label, ids, nms, mapping, supplied in (
        ("sample", s.sample_ids, [r["s"] for r in rows], s.sample_mapping, supplied_s),
        ("plate", s.plate_ids, [r["p"] for r in rows], s.plate_mapping, None),
    ):
        ids = [int(x) for x in ids]
        require(len(ids) == n, label + ".length", "wrong number of ids")
        f = {}
        for nm, i in zip(nms, ids):
            prev = f.setdefault(nm, i)
            require(prev == i, label + ".functional", lambda: "%s %r has ids %d and %d" % (label, nm, prev, i))
        require(len(set(f.values())) == len(f), label + ".injective", lambda: "two %s names share an id: %r" % (label, f))
        m = {str(k): int(v) for k, v in zip(*mapping)}
        require(len(m) == len(mapping[0]), label + ".mapping.unique", "duplicate names in %s mapping" % label)
        require(sorted(m.values()) == list(range(len(m))), label + ".mapping.dense", lambda: "%s mapping ids %r" % (label, sorted(m.values())))
        for nm, i in f.items():
            require(m.get(nm) == i, label + ".decode", lambda: "%s %r id %d, mapping says %r" % (label, nm, i, m.get(nm)))
        if supplied is None:
            require(sorted(f.values()) == list(range(len(f))), label + ".dense", lambda: "%s ids %r not 0..n-1" % (label, sorted(f.values())))
            require(len(m) == len(f), label + ".mapping.exact", "mapping lists names absent from the data although none was supplied")
        else:
            require(S.mapping_equal(mapping, supplied), label + ".mapping.verbatim", "supplied %s mapping not kept verbatim" % label)

    es = ExperimentSpace.from_screen(s)
    if n:
        mx = int(tid.max())
        require(es.n_unique_treatments > mx, "space.treatments", lambda: "n_unique_treatments=%d does not bound max id %d" % (es.n_unique_treatments, mx))
        require(es.n_unique_samples > int(np.max(s.sample_ids)), "space.samples", lambda: "n_unique_samples=%d does not bound max sample id %d" % (es.n_unique_samples, int(np.max(s.sample_ids))))
    require(es.n_unique_treatments == len(by_id), "space.treatments.size", lambda: "n_unique_treatments=%d, mapping has %d non-control conditions" % (es.n_unique_treatments, len(by_id)))
    require(es.n_unique_samples == len(s.sample_mapping[0]), "space.samples.size", "n_unique_samples != sample mapping size")
    return any(len(k) == 2 for k in both_kinds)


def _check_grid(case):
    g = case["grid"]
    sc = _grid_sc(g)
    labels = ["mode=grid", "arity=%d" % sc["arity"], "conditions>=%d" % (2 ** int(np.log2(max(1, g["n_names"] * g["n_doses"]))))]
    if case.get("superset"):
        full = _grid_sc(dict(g, used=1.0))
        sup = S.build_screen(full)
        _check_screen(sup, full)
        s = S.build_screen(sc, treatment_mapping=sup.treatment_mapping, sample_mapping=sup.sample_mapping)
        _check_screen(s, sc, supplied_t=sup.treatment_mapping, supplied_s=sup.sample_mapping)
        labels.append("grid-under-superset-mapping")
    else:
        s = S.build_screen(sc)
        _check_screen(s, sc)
    return {"nontrivial": True, "labels": labels, "counts": {"grid_conditions": g["n_names"] * g["n_doses"]}}


def check_case(case):
    if case["mode"] == "grid":
        return _check_grid(case)
    sc = case["screen"]
    mode = case["mode"]
    labels = ["mode=" + mode, "arity=%d" % sc["arity"]]
    if not sc["rows"]:
        labels.append("empty")
    if mode == "plain":
        readonly = bool(case.get("readonly"))
        s = S.build_screen(dict(sc, layout="readonly") if readonly else sc)
        both = _check_screen(s, sc)
        if both:
            labels.append("both-control-kinds-in-a-column")
        # read-only uses of the screen (unique-condition filter, combination filter, views, experiment space) leave its encoding intact
        from batchie.data import ExperimentSpace, filter_dataset_to_treatments_that_appear_in_at_least_one_combo, filter_dataset_to_unique_treatments

        if sc["rows"]:
            filter_dataset_to_unique_treatments(s)
            filter_dataset_to_unique_treatments(s.subset(np.ones(s.size, dtype=bool)))
            if sc["arity"] >= 2:
                filter_dataset_to_treatments_that_appear_in_at_least_one_combo(s)
            ExperimentSpace.from_screen(s)
            [p_.size for p_ in s.plates]
            s.subset_observed(), s.subset_unobserved()
            try:
                _check_screen(s, sc)
            except Violation as v:
                raise Violation("after_readonly_use." + v.sub_check, "after filtering / viewing the screen (operations that must not change it): " + v.message)
        # plates merged in place (handles taken once, so later merges use stale handles): the plate ids must remain the
        # dense 0..n-1 encoding of the CURRENT plate names (the plate mapping, which merge does not maintain, is not asserted)
        handles = list(s.plates)
        merged = 0
        refused_merges = 0
        for a_, b_ in case.get("merges", []):
            if len(handles) < 2:
                break
            pa, pb = handles[a_ % len(handles)], handles[b_ % len(handles)]
            if pa is pb:
                continue
            if readonly:
                # arrays protected by the caller: an in-place merge may be refused (ValueError) - the screen then still is a screen
                try:
                    pa.merge(pb)
                    merged += 1
                except ValueError:
                    refused_merges += 1
            else:
                pa.merge(pb)
                merged += 1
            names_now = [str(x) for x in s.plate_names]
            ids_now = [int(x) for x in s.plate_ids]
            f = {}
            for nm, i in zip(names_now, ids_now):
                require(f.setdefault(nm, i) == i, "plate.after_merge.functional", lambda: "after merging, plate %r has ids %r and %r" % (nm, f[nm], i))
            require(len(set(f.values())) == len(f), "plate.after_merge.injective", lambda: "after merging, two plate names share an id: %r" % f)
            require(sorted(f.values()) == list(range(len(f))), "plate.after_merge.dense", lambda: "after merging, plate ids are %r for %d plate names" % (sorted(f.values()), len(f)))
            require(int(s.n_plates) == len(f), "plate.after_merge.n_plates", lambda: "n_plates=%r for %d plate names" % (s.n_plates, len(f)))
            for nm, i in f.items():
                sel = np.asarray(s.get_plate(i).selection_vector)
                require([names_now[r] for r in np.where(sel)[0]] == [nm] * int(sel.sum()) and int(sel.sum()) == names_now.count(nm), "plate.after_merge.get_plate", lambda: "get_plate(%d) does not select exactly the rows of plate %r" % (i, nm))
        if merged:
            labels.append("plate-merges")
        if refused_merges:
            labels.append("merge-refused-on-read-only-arrays")
            try:
                _check_screen(s, sc)  # (no merge took place: the screen is the one that was constructed)
            except Violation as v:
                if merged == 0:
                    raise Violation("after_refused_merge." + v.sub_check, "after a merge that was refused (read-only arrays): " + v.message)
        return {"nontrivial": both or sc["arity"] != 2 or merged > 0 or refused_merges > 0, "labels": labels}

    sup_rows = sc["rows"] + case["extra"]
    sup = S.build_screen(dict(sc, observed=[]), rows=sup_rows)
    sup_sc = dict(sc, rows=sup_rows)
    _check_screen(sup, sup_sc)
    tm, sm = sup.treatment_mapping, sup.sample_mapping
    if mode == "superset":
        s = S.build_screen(sc, treatment_mapping=tm, sample_mapping=sm)
        both = _check_screen(s, sc, supplied_t=tm, supplied_s=sm)
        own = S.build_screen(sc)
        strict = len(tm[0]) > len(own.treatment_mapping[0]) or len(sm[0]) > len(own.sample_mapping[0])
        if strict:
            labels.append("strict-superset")
        # ids agree with the superset screen's ids on the shared rows
        k = len(sc["rows"])
        require(np.array_equal(np.asarray(s.treatment_ids), np.asarray(sup.treatment_ids)[:k]), "superset.same_ids", "sub-screen treatment ids differ from the superset's ids for the same rows")
        require(np.array_equal(np.asarray(s.sample_ids), np.asarray(sup.sample_ids)[:k]), "superset.same_sample_ids", "sub-screen sample ids differ from the superset's")
        if sc["rows"]:
            # one plate per sample, named after it: the caller hands ONE array for both the sample names and the plate names
            # (and, separately, one array for both treatment columns' worth of doses is not possible - they are one 2-d array anyway)
            from batchie.data import Screen

            tn_, td_, sn_, _pn, _ob, _mk = S.arrays(sc)
            one = Screen(treatment_names=tn_, treatment_doses=td_, sample_names=sn_, plate_names=sn_, control_treatment_name=sc["control"], treatment_mapping=tm, sample_mapping=sm)
            sc_one = dict(sc, rows=[dict(r, p=r["s"]) for r in sc["rows"]], observed=[])
            try:
                _check_screen(one, sc_one, supplied_t=tm, supplied_s=sm)
            except Violation as v:
                raise Violation("shared_name_array." + v.sub_check, "sample names and plate names given as one and the same array: " + v.message)
        return {"nontrivial": strict or both or sc["arity"] != 2, "labels": labels}

    # negative cases: a corrupted mapping must be rejected with ValueError
    neg = case["neg"]
    idx = case["neg_index"]
    tn, td, ti = [np.array(x) for x in tm]
    sn, si = [np.array(x) for x in sm]
    rows = sc["rows"]
    if neg == "drop_treatment":
        used = sorted({(r["t"][j], float(r["d"][j])) for r in rows for j in range(sc["arity"])}, key=repr)
        if not used:
            raise Skip()
        name, dose = used[idx % len(used)]
        keep = ~((tn == name) & (td == dose))
        # renumber so the mapping stays dense: the rejection must come from the missing key
        tn, td, ti = tn[keep], td[keep], ti[keep]
        nz = ti != -1
        ti = ti.copy()
        ti[nz] = np.argsort(np.argsort(ti[nz]))
        why = "treatment (%r,%r) missing from mapping" % (name, dose)
    elif neg == "drop_sample":
        used = sorted({r["s"] for r in rows})
        if not used:
            raise Skip()
        name = used[idx % len(used)]
        keep = sn != name
        sn, si = sn[keep], si[keep]
        si = np.argsort(np.argsort(si))
        why = "sample %r missing from mapping" % name
    elif neg in ("gap_t", "shift_t"):
        nz = ti != -1
        if nz.sum() < (2 if neg == "gap_t" else 1):
            raise Skip()
        ti = ti.copy()
        if neg == "gap_t":
            ti[ti == ti[nz].max()] += 1
        else:
            ti[nz] += 1
        why = "treatment mapping ids not dense: %r" % sorted(set(ti.tolist()))
    elif neg == "gap_s":
        if len(si) < 2:
            raise Skip()
        si = si.copy()
        si[si == si.max()] += 1
        why = "sample mapping ids not dense"
    elif neg == "float_t":
        if len(ti) == 0:
            raise Skip()
        ti = ti.astype(float)
        why = "float treatment ids"
    else:
        if len(si) == 0:
            raise Skip()
        si = si.astype(float)
        why = "float sample ids"
    try:
        S.build_screen(sc, treatment_mapping=(tn, td, ti), sample_mapping=(sn, si))
    except ValueError:
        return {"nontrivial": True, "labels": labels + ["neg=" + neg]}
    raise Violation("mapping.rejected." + neg, "screen was constructed although the supplied mapping is invalid (%s)" % why)
