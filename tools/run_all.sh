#!/bin/sh
# run every check's quick (or $1) tier in parallel at seed $2 (default 1); prints one summary line per check
tier=${1:-quick}; seed=${2:-1}
cd "$(dirname "$0")/.."
out=$(mktemp -d)
for i in 01 02 03 04 05 06 07 08 09 10 11 12 13 14 15 16 17 18 19 20; do
  ( VERIF_OUT=${VERIF_OUT_BASE:-$out}/C$i VERIF_SEED=$seed /venv/bin/python run_check.py C$i --tier $tier > $out/C$i.log 2>&1; echo "C$i rc=$? $(grep -E '^C[0-9]+ tier' $out/C$i.log | tail -1) $(grep -E 'VIOLATION|HARNESS|KNOWN' $out/C$i.log | head -2)" ) &
done
wait
rm -rf $out
