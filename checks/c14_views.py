"""C14 - subset and plate views are exact row selections with set-algebra semantics (history of view expressions)."""
import numpy as np
from hypothesis import strategies as st

from vf import strategies as S
from vf.engine import Violation, require

ID = "C14"
LEVEL = "exploration"
TECHNIQUE = "model-based generation of view-expression histories (subset/combine/concat/invert/get_plate/observed/to_screen/unique) against a sorted-index-list model"
RULE = (
    "screens of arity 1..3 with 1..12 rows (duplicates frequent), any plate-atomic mask; a history of 3..12 operations, each building a new view "
    "from earlier ones (operands chosen by drawn indices): subset with empty/full/overlapping masks, subset of subset, combine, concat, invert, "
    "get_plate, observed/unobserved split, to_screen, unique-condition filter, and in-place changes of the parent between them (set_observed on a plate or on arbitrary unobserved rows, Plate.merge of plates of equal or different observation status, so plates may be partly observed); a second screen for the cross-parent refusal; random int columns for "
    "select_unique_zipped_numpy_arrays vs a dict reference; once per run the unique filter on every three-row view [X, Y, X] of a full two-slot design (2 samples x (T+1)^2 conditions, T=5 / 7) and, for small screens, on every view of three rows. Non-trivial = history contains a nested subset and a union and has depth>=3. distinct = distinct case JSON."
    ' Also: views at id-width boundaries (highest id 2**8-1, 2**16-1 and neighbours, with controls).'
    ' Also: unions of 255 .. 600 views sharing one experiment; 3- and 4-slot conditions at table sizes 2**k - 2 .. 2**k; one history in a hundred has 60..100 operations.'
    " Also: the derived single-effect table of views against the parent's rows on fixed screens with blank-only samples."
    ' Also: the union of all plates of a 2**19-row screen in a memory-capped child process.'
)
ASSUMPTIONS = [
    "the model of a view is the sorted list of parent row indices; ids of a materialised screen are not asserted (Screen.combine/to_screen document that ids may change)",
    "which duplicate the unique filter keeps is not asserted, only 'exactly one per distinct (sample id, treatment ids) and every distinct one'",
]


def budgets(tier):
    if tier == "quick":
        return {"examples": 1500, "max_s": 110, "shrink_s": 20, "shards": 1}
    return {"examples": 2500, "max_s": 700, "shrink_s": 90, "shards": 16}


OPS = ["subset_root", "subset", "subset", "combine", "concat", "invert", "get_plate", "observed", "unobserved", "to_screen", "unique", "set_observed", "merge", "unique_of_screen"]


@st.composite
def _case(draw):
    sc = draw(S.screen_case(min_rows=1, max_rows=12, obs=S.finite_obs, max_pool=3))
    n = len(sc["rows"])
    ops = []
    for _ in range(draw(st.one_of(*([st.integers(3, 12)] * 99 + [st.integers(60, 100)])))):  # one history in a hundred is long (accumulated state: caches, growing buffers)
        op = draw(st.sampled_from(OPS))
        mask_kind = draw(st.sampled_from(["any", "any", "empty", "full"]))
        if mask_kind == "any":
            bits = [draw(st.booleans()) for _ in range(n)]
        else:
            bits = [mask_kind == "full"] * n
        ops.append({"op": op, "a": draw(st.integers(0, 30)), "b": draw(st.integers(0, 30)), "more": draw(st.lists(st.integers(0, 30), max_size=2)), "bits": bits})
    cols = draw(st.lists(st.lists(st.integers(-1, 2), min_size=0, max_size=8), min_size=1, max_size=3))
    m = min(len(c) for c in cols)
    return {"screen": sc, "ops": ops, "cols": [c[:m] for c in cols]}


def strategy(tier):
    return _case()


ATTRS = ["plate_ids", "sample_ids", "treatment_ids", "sample_names", "treatment_names", "treatment_doses", "observations", "observation_mask"]


def _eq(a, b):
    a, b = np.asarray(a), np.asarray(b)
    if a.shape != b.shape:
        return False
    if a.dtype.kind == "f":
        return S.same_bits(a, b)
    if a.dtype.kind in "US":
        return S.same_str(a, b)
    return bool(np.array_equal(a, b))


def _check_view(view, idx, screen, tag):
    idx = np.array(sorted(idx), dtype=int)
    sel = np.zeros(screen.size, dtype=bool)
    sel[idx] = True
    require(np.array_equal(np.asarray(view.selection_vector), sel), tag + ".selection", lambda: "selection %r, model rows %r" % (np.where(np.asarray(view.selection_vector))[0].tolist(), idx.tolist()))
    require(view.size == len(idx), tag + ".size", lambda: "size %r for %d rows" % (view.size, len(idx)))
    for a in ATTRS:
        got = getattr(view, a)
        exp = np.asarray(getattr(screen, a))[idx]
        require(_eq(got, exp), tag + "." + a, lambda: "view.%s = %r, parent rows give %r" % (a, np.asarray(got).tolist(), exp.tolist()))
    require(view.treatment_mapping is screen.treatment_mapping or S.mapping_equal(view.treatment_mapping, screen.treatment_mapping), tag + ".mapping", "view does not expose the parent's treatment mapping")
    require(S.mapping_equal(view.sample_mapping, screen.sample_mapping), tag + ".sample_mapping", "view does not expose the parent's sample mapping")


def _self_consistent(view, screen, tag):
    """whatever rows a view currently selects, every attribute must be the parent's value at exactly those rows"""
    sel = np.asarray(view.selection_vector)
    idx = np.where(sel)[0]
    require(view.size == len(idx), tag + ".self.size", lambda: "view.size %r but its selection vector selects %d rows" % (view.size, len(idx)))
    for a in ATTRS:
        got = getattr(view, a)
        exp = np.asarray(getattr(screen, a))[idx]
        require(_eq(got, exp), tag + ".self." + a, lambda: "view.%s = %r, but the parent's values at the rows the view selects %r are %r" % (a, np.asarray(got).tolist(), idx.tolist(), exp.tolist()))


def exhaustive(tier):
    # the unique filter on every three-row view [X, Y, X] of a full two-slot design (ids 0..T-1 and control, two samples): views
    # whose ids have gaps, with a replicate of X after another condition Y
    yield {"kind": "xyx", "T": 5 if tier == "quick" else 7}
    # views of screens whose highest treatment (or sample) id sits at a storage-width boundary (2**8, 2**16 ids, one less, one more):
    # conditions that differ only in "highest id" versus "control" in one slot
    for n in [255, 256, 257, 65536] + ([65535, 65537, 32768, 32767] if tier != "quick" else []):
        for axis in ("treatments", "samples"):
            yield {"kind": "width", "axis": axis, "n": n}
    # the same boundaries with three and four treatment slots (a condition then spans up to 5 x 16 bits)
    # (a packed key has base n, n + 1 or n + 2 depending on how the control and the table size are counted: all three neighbours)
    for n, ar in [(254, 4), (255, 4), (256, 4), (65534, 4), (65535, 4), (65536, 4), (65534, 3), (2046, 3)] + ([(65537, 4), (65536, 3), (2047, 3), (2048, 3), (4094, 4), (4095, 4), (2**13 - 2, 4), (2**13 - 1, 4), (2**21 - 2, 3)] if tier != "quick" else []):
        yield {"kind": "width", "axis": "treatments", "n": n, "arity": ar}
    # the derived per-experiment table of single-agent effects (available when every (sample, treatment) of the screen has a
    # single-agent well): a view's table is the parent's restricted to its rows - on screens with blank-only samples, repeated
    # single-agent wells and controls in either slot
    for variant in range(3 if tier == "quick" else 6):
        yield {"kind": "ste", "variant": variant}
    # the union of all plates of a production-size screen in a process whose address space is capped (a cluster job's memory limit)
    # a little above what it uses: whatever needs memory the job cannot get may fail - but a union that is returned is the union
    for rows_, plates_ in [(2**19, 600)] + ([(2**20, 300), (2**18, 1500)] if tier != "quick" else []):
        yield {"kind": "capped_union", "rows": rows_, "plates": plates_, "headroom_mib": 160}
    # unions of many views in one call: 255 .. 600 operands that all share one reference experiment
    for m in [255, 256, 257] + ([300, 511, 512, 513, 600] if tier != "quick" else [512]):
        yield {"kind": "many_operands", "m": m}


def _check_xyx(case):
    from batchie.data import filter_dataset_to_unique_treatments

    T = case["T"]
    ids = list(range(-1, T))
    design = [(s_, a_, b_) for s_ in (0, 1) for a_ in ids for b_ in ids]
    rows = []
    for blk in range(3):
        for s_, a_, b_ in design:
            rows.append({"s": "s%d" % s_, "p": "p%d" % blk, "t": ["ctl" if a_ < 0 else "t%d" % a_, "ctl" if b_ < 0 else "t%d" % b_], "d": [0.0 if a_ < 0 else 1.0, 0.0 if b_ < 0 else 1.0], "o": 0.5})
    screen = S.build_screen({"arity": 2, "control": "ctl", "rows": rows, "observed": []})
    n, m = len(rows), len(design)
    sid, tid = np.asarray(screen.sample_ids), np.asarray(screen.treatment_ids)
    key = lambda i: (int(sid[i]),) + tuple(int(x) for x in tid[i])
    checked = 0
    for xi in range(0, m // 2):  # X among the first sample's conditions
        for yi in range(m):
            if design[yi] == design[xi]:
                continue
            trio = [xi, m + yi, 2 * m + xi]
            sel = np.zeros(n, dtype=bool)
            sel[trio] = True
            got = np.where(np.asarray(filter_dataset_to_unique_treatments(screen.subset(sel)).selection_vector))[0].tolist()
            ks = [key(i) for i in got]
            require(set(got) <= set(trio) and len(ks) == 2 and set(ks) == {key(trio[0]), key(trio[1])}, "unique.xyx_views", lambda: "unique filter on the view [X, Y, X] with X=%r, Y=%r (sample id, treatment ids) keeps rows with conditions %r" % (key(trio[0]), key(trio[1]), ks))
            checked += 1
    return {"nontrivial": True, "labels": ["xyx-views"], "counts": {"xyx_views": checked}}


def _check_width_wide(case):
    """conditions with 3 or 4 treatment slots on a screen with exactly n treatments: experiments that differ in the sample only, in
    one slot only (highest id / control / lowest id), or in the order of the slots"""
    from batchie.data import Screen, filter_dataset_to_unique_treatments

    nt, ar, ns = case["n"], case["arity"], 5
    width = len(str(nt))
    tname = lambda t: "ctl" if t < 0 else "t%0*d" % (width, t)
    top = nt - 1
    cover = [tuple(min(top, r * ar + c) for c in range(ar)) for r in range((nt + ar - 1) // ar)]  # every treatment id occurs
    rows = [(r % ns,) + t for r, t in enumerate(cover)]
    base = len(rows)
    pats = [(top,) * ar, (0,) * ar, (-1,) * ar, (top, 0) * (ar // 2) + (top,) * (ar % 2), (0, top) * (ar // 2) + (0,) * (ar % 2), (top,) + (-1,) * (ar - 1), (-1,) * (ar - 1) + (top,), (top - 1,) + (top,) * (ar - 1), (1, 2, 3, 4)[:ar], (top, top - 1, 1, 0)[:ar]]
    extras = [(s_,) + p_ for p_ in pats for s_ in (0, 1, ns - 1)]
    rows += extras + extras[:4]
    arr = np.array(rows)
    screen = Screen(treatment_names=np.array([[tname(t) for t in r[1:]] for r in rows]), treatment_doses=np.where(arr[:, 1:] < 0, 0.0, 1.0), observations=np.zeros(len(rows)), observation_mask=np.zeros(len(rows), dtype=bool), sample_names=np.array(["s%d" % r[0] for r in rows]), plate_names=np.array(["p%d" % (i % 3) for i in range(len(rows))]), control_treatment_name="ctl")
    sid, tid = np.asarray(screen.sample_ids), np.asarray(screen.treatment_ids)
    require(int(tid.max()) == top and int(tid.min()) == -1, "harness", "unexpected id range of the boundary screen")
    key = lambda i: (int(sid[i]),) + tuple(int(x) for x in tid[i])
    ext = list(range(base, len(rows)))
    views = [ext, list(range(len(rows)))] + [[i, j] for i in ext for j in ext if i < j]
    for v in views:
        sel = np.zeros(len(rows), dtype=bool)
        sel[v] = True
        got = np.where(np.asarray(filter_dataset_to_unique_treatments(screen.subset(sel)).selection_vector))[0].tolist()
        ks = [key(i) for i in got]
        want = {key(i) for i in v}
        require(set(got) <= set(v) and len(ks) == len(set(ks)) and set(ks) == want, "unique.width_boundary", lambda: "%d treatments, %d slots: the unique filter on a view of %d experiments with %d distinct conditions keeps %d experiments with conditions %r%s" % (nt, ar, len(v), len(want), len(got), ks[:4], "" if len(v) > 4 else " (the view's conditions: %r)" % sorted(want)))
    return {"nontrivial": True, "labels": ["width-boundary:treatments:arity%d" % ar], "counts": {"width_views": len(views)}}


def _check_ste(case):
    v = case["variant"]
    nt = 3 + v % 2
    rows = []
    for s_ in range(2 + v % 2):
        for t in range(nt):  # single-agent wells (control in either slot; one of them repeated)
            slot = (t + s_ + v) % 2
            rows.append({"s": "s%d" % s_, "p": "p%d" % (t % 2), "t": (["t%d" % t, "ctl"] if slot == 0 else ["ctl", "t%d" % t]), "d": ([1.0, 0.0] if slot == 0 else [0.0, 1.0]), "o": 0.2 + 0.1 * t + 0.05 * s_})
        rows.append({"s": "s%d" % s_, "p": "p1", "t": ["t0", "ctl"], "d": [1.0, 0.0], "o": 0.9})
        for t in range(nt):  # combinations
            rows.append({"s": "s%d" % s_, "p": "p%d" % (2 + t % 2), "t": ["t%d" % t, "t%d" % ((t + 1 + v) % nt)], "d": [1.0, 1.0], "o": 0.5 + 0.01 * t})
        rows.append({"s": "s%d" % s_, "p": "p2", "t": ["ctl", "ctl"], "d": [0.0, 0.0], "o": 1.0})
    for b in range(1 + v % 3):  # samples that occur in blank (vehicle-only) wells only
        rows.append({"s": "blank%d" % b, "p": "p%d" % (b % 4), "t": ["ctl", "ctl"], "d": [0.0, 0.0], "o": 0.97 + 0.01 * b})
        rows.append({"s": "blank%d" % b, "p": "p3", "t": ["ctl", "ctl"], "d": [0.0, 0.0], "o": 1.01})
    screen = S.build_screen({"arity": 2, "control": "ctl", "rows": rows, "observed": ["p0", "p2", "p3"] if v % 2 else ["p0", "p1", "p2", "p3"]})
    n = len(rows)
    parent = screen.single_treatment_effects
    require(parent is not None and np.asarray(parent).shape == (n, 2), "harness", "the fixed screen has no single-effect table")
    parent = np.asarray(parent, dtype=float)
    views = [[i] for i in range(n)] + [[i, j] for i in range(n) for j in range(i + 1, n) if (i + j + v) % 3 == 0] + [list(range(n)), [i for i in range(n) if rows[i]["s"].startswith("blank")], [i for i in range(n) if rows[i]["t"] == ["ctl", "ctl"]]]
    views += [[int(i) for i in np.flatnonzero(np.asarray(p_.selection_vector))] for p_ in screen.plates]
    for idx in views:
        sel = np.zeros(n, dtype=bool)
        sel[idx] = True
        view = screen.subset(sel)
        got = view.single_treatment_effects
        require(got is not None and np.asarray(got).shape == (len(idx), 2) and S.same_bits(np.asarray(got, dtype=float), parent[sel]), "view.single_treatment_effects", lambda: "rows %r: the view's single-effect table is %r, the parent's rows are %r" % (idx[:6], None if got is None else np.asarray(got).tolist()[:4], parent[sel].tolist()[:4]))
    # views read once, then new results are entered on the parent (set_observed on a plate of single-agent wells), then read again:
    # a view reports the parent's table as it is now
    if v % 2:
        kept = []
        for idx in views[:: max(1, len(views) // 12)]:
            sel = np.zeros(n, dtype=bool)
            sel[idx] = True
            vw = screen.subset(sel)
            vw.single_treatment_effects
            kept.append((sel, vw))
        p1 = np.array([r["p"] == "p1" for r in rows])
        screen.set_observed(p1, np.linspace(0.31, 0.77, int(p1.sum())))
        now = screen.single_treatment_effects
        require(now is not None, "harness", "the table vanished after the reveal")
        now = np.asarray(now, dtype=float)
        require(not S.same_bits(now, parent), "harness", "the reveal did not change the table")
        for sel, vw in kept:
            got = vw.single_treatment_effects
            require(got is not None and S.same_bits(np.asarray(got, dtype=float), now[sel]), "view.single_treatment_effects_after_reveal", lambda: "a view read before new results were entered on its screen still reports %r; the parent's rows are now %r" % (np.asarray(got).tolist()[:3], now[sel].tolist()[:3]))
    return {"nontrivial": True, "labels": ["single-effect-table-of-views"], "counts": {"ste_views": len(views)}}


def _check_capped_union(case):
    from vf import xproc

    body = (
        "import resource\n"
        "from batchie.data import Screen, ScreenSubset\n"
        "n, k = params['rows'], params['plates']\n"
        "i = np.arange(n)\n"
        "screen = Screen(treatment_names=np.stack([np.char.add('t', (i % 7).astype(str)), np.char.add('t', ((i + 1 + i // 7 % 5) % 7).astype(str))], axis=1), treatment_doses=np.ones((n, 2)), observations=np.zeros(n), observation_mask=np.zeros(n, dtype=bool), sample_names=np.char.add('s', (i % 3).astype(str)), plate_names=np.char.add('p', ((i * 7919) % k).astype(str)), control_treatment_name='ctl')\n"
        "ops = sorted(screen.plates, key=lambda p: int(p.plate_id))\n"
        "vm = int([l for l in open('/proc/self/status') if l.startswith('VmSize')][0].split()[1]) * 1024\n"
        "soft, hard = resource.getrlimit(resource.RLIMIT_AS)\n"
        "resource.setrlimit(resource.RLIMIT_AS, (vm + params['headroom_mib'] * 2**20, hard))\n"
        "try:\n"
        "    u = ScreenSubset.concat(ops)\n"
        "    print('UNION', int(np.sum(u.selection_vector)), len(ops))\n"
        "except MemoryError:\n"
        "    print('MEMORYERROR')\n"
    )
    ok, text = xproc.python(body, 77, rows=case["rows"], plates=case["plates"], headroom_mib=case["headroom_mib"])
    require(ok, "capped_union.failed", lambda: "the union of all plates in a memory-capped process failed: %s" % text[-500:])
    if "MEMORYERROR" in text:
        return {"nontrivial": False, "labels": ["capped-union:out-of-memory"]}
    got = [l for l in text.splitlines() if l.startswith("UNION")]
    require(bool(got), "harness", "no result line from the capped process: %r" % text[-300:])
    total, n_ops = int(got[0].split()[1]), int(got[0].split()[2])
    require(total == case["rows"] and n_ops == case["plates"], "concat.capped_union", lambda: "in a process whose address space was capped %d MiB above its use, the union of all %d plates of a %d-row screen selects %d rows" % (case["headroom_mib"], n_ops, case["rows"], total))
    return {"nontrivial": True, "labels": ["capped-union"]}


def _check_many_operands(case):
    from batchie.data import ScreenSubset

    m = case["m"]
    n = m + 3
    rows = [{"s": "s%d" % (i % 2), "p": "p%d" % (i % 3), "t": ["t%d" % (i % 5), "t%d" % ((i + 1 + i // 5 % 3) % 5)], "d": [1.0, 2.0], "o": 0.5} for i in range(n)]
    screen = S.build_screen({"arity": 2, "control": "ctl", "rows": rows, "observed": []})
    ops = []
    for j in range(m):
        sel = np.zeros(n, dtype=bool)
        sel[0] = True  # the reference experiment, in every operand
        sel[1 + j] = True
        if j % 7 == 0:
            sel[n - 1] = True
        ops.append(screen.subset(sel))
    before = [np.asarray(o.selection_vector).copy() for o in ops]
    want = np.logical_or.reduce(before)
    got = np.asarray(ScreenSubset.concat(ops).selection_vector)
    require(np.array_equal(got, want), "concat.many_operands", lambda: "the union of %d views (every one contains experiment 0) selects %d experiments, their set union has %d; missing %r, extra %r" % (m, int(got.sum()), int(want.sum()), np.flatnonzero(want & ~got).tolist()[:5], np.flatnonzero(got & ~want).tolist()[:5]))
    acc = ops[0]
    for o in ops[1:]:
        acc = acc.combine(o)
    require(np.array_equal(np.asarray(acc.selection_vector), want), "combine.many_operands", lambda: "%d views folded with combine() select %d experiments, their set union has %d" % (m, int(np.sum(acc.selection_vector)), int(want.sum())))
    require(all(np.array_equal(np.asarray(o.selection_vector), b) for o, b in zip(ops, before)), "concat.operands_unchanged", "an operand of a long union was changed")
    return {"nontrivial": True, "labels": ["union-of-many-views"], "counts": {"operands": m}}


def _check_width(case):
    from batchie.data import Screen, filter_dataset_to_unique_treatments

    n, axis = case["n"], case["axis"]
    if case.get("arity", 2) != 2:
        return _check_width_wide(case)
    nt, ns = (n, 3) if axis == "treatments" else (4, n)
    width = len(str(max(nt, ns)))
    tname = lambda t: "ctl" if t < 0 else "t%0*d" % (width, t)
    sname = lambda k: "s%0*d" % (width, k)
    top_t, top_s = nt - 1, ns - 1
    rows = [(k % ns, t, -1) for k, t in enumerate(range(nt))] + [(k, 0, -1) for k in range(ns)]  # every id occurs
    base = len(rows)
    extras = []
    for s_ in (0, top_s):
        for a_ in (0, 1, top_t - 1 if top_t >= 2 else 0):
            extras += [(s_, a_, top_t), (s_, a_, -1), (s_, top_t, a_), (s_, -1, a_)]
        extras += [(s_, top_t, -1), (s_, -1, top_t), (s_, top_t, top_t), (s_, -1, -1)]
    rows += extras + extras[:5]  # (the first five once more: replicates)
    arr = np.array(rows)
    screen = Screen(treatment_names=np.array([[tname(a_), tname(b_)] for _, a_, b_ in rows]), treatment_doses=np.where(arr[:, 1:] < 0, 0.0, 1.0), observations=np.zeros(len(rows)), observation_mask=np.zeros(len(rows), dtype=bool), sample_names=np.array([sname(k) for k, _, _ in rows]), plate_names=np.array(["p%d" % (i % 3) for i in range(len(rows))]), control_treatment_name="ctl")
    sid, tid = np.asarray(screen.sample_ids), np.asarray(screen.treatment_ids)
    require(int(tid.max()) == top_t and int(sid.max()) == top_s and int(tid.min()) == -1, "harness", "unexpected id range of the boundary screen")
    key = lambda i: (int(sid[i]),) + tuple(int(x) for x in tid[i])
    ext = list(range(base, len(rows)))
    views = [ext, list(range(len(rows)))] + [[i, j] for i in ext for j in ext if i < j] + [[i, j, k_] for i, j, k_ in zip(ext, ext[3:], ext[7:])]
    for v in views:
        sel = np.zeros(len(rows), dtype=bool)
        sel[v] = True
        got = np.where(np.asarray(filter_dataset_to_unique_treatments(screen.subset(sel)).selection_vector))[0].tolist()
        ks = [key(i) for i in got]
        want = {key(i) for i in v}
        require(set(got) <= set(v) and len(ks) == len(set(ks)) and set(ks) == want, "unique.width_boundary", lambda: "%d %s: the unique filter on a view of %d experiments with %d distinct conditions keeps %d experiments with conditions %r%s" % (n, axis, len(v), len(want), len(got), ks[:6], "" if len(v) > 6 else " (the view's conditions: %r)" % sorted(want)))
    return {"nontrivial": True, "labels": ["width-boundary:%s" % axis], "counts": {"width_views": len(views)}}


def check_case(case):
    if case.get("kind") == "xyx":
        return _check_xyx(case)
    if case.get("kind") == "width":
        return _check_width(case)
    if case.get("kind") == "capped_union":
        return _check_capped_union(case)
    if case.get("kind") == "ste":
        return _check_ste(case)
    if case.get("kind") == "many_operands":
        return _check_many_operands(case)
    from batchie.common import select_unique_zipped_numpy_arrays
    from batchie.data import ScreenSubset, filter_dataset_to_unique_treatments

    sc = case["screen"]
    screen = S.build_screen(sc)
    n = screen.size
    mask = np.asarray(screen.observation_mask).copy()
    frozen = {a: np.array(getattr(screen, a), copy=True) for a in ATTRS}
    views = []  # (view object, sorted index list, depth, kinds)
    nested = union = False
    mutated = False
    maxdepth = 0

    def pick(i):
        return views[i % len(views)]

    for step, op in enumerate(case["ops"]):
        kind = op["op"]
        tag = "%s" % kind
        bits = np.array(op["bits"], dtype=bool)
        if kind != "subset_root" and kind not in ("get_plate", "observed", "unobserved") and not views:
            kind = "subset_root"
        if kind == "subset_root":
            v = screen.subset(bits.copy())
            idx = np.where(bits)[0].tolist()
            depth = 1
        elif kind == "subset":
            pv, pidx, pd, _ = pick(op["a"])
            inner = bits[: len(pidx)]
            before = np.array(pv.selection_vector, copy=True)
            v = pv.subset(inner.copy())
            idx = [i for i, keep in zip(pidx, inner) if keep]
            require(np.array_equal(np.asarray(pv.selection_vector), before), "subset.outer_untouched", "subsetting a subset modified the outer view's selection vector")
            depth = pd + 1
            nested = True
        elif kind == "combine":
            (v1, i1, d1, _), (v2, i2, d2, _) = pick(op["a"]), pick(op["b"])
            v = v1.combine(v2)
            idx = sorted(set(i1) | set(i2))
            depth = max(d1, d2) + 1
            union = True
        elif kind == "concat":
            parts = [pick(op["a"]), pick(op["b"])] + [pick(x) for x in op["more"]]
            v = ScreenSubset.concat([p[0] for p in parts])
            idx = sorted(set().union(*[set(p[1]) for p in parts]))
            depth = max(p[2] for p in parts) + 1
            union = True
        elif kind == "invert":
            pv, pidx, pd, _ = pick(op["a"])
            v = pv.invert()
            idx = sorted(set(range(n)) - set(pidx))
            depth = pd + 1
        elif kind == "get_plate":
            pids = sorted(set(int(x) for x in screen.plate_ids))
            pid = pids[op["a"] % len(pids)]
            v = screen.get_plate(pid)
            idx = [i for i in range(n) if int(screen.plate_ids[i]) == pid]
            require(int(v.plate_id) == pid, "get_plate.plate_id", "plate view reports another plate id")
            require(str(v.plate_name) == sc["rows"][idx[0]]["p"], "get_plate.plate_name", "plate view reports another plate name")
            depth = 1
        elif kind in ("observed", "unobserved"):
            want = mask if kind == "observed" else ~mask
            v = screen.subset_observed() if kind == "observed" else screen.subset_unobserved()
            if not want.any():
                require(v is None, kind + ".none_when_empty", "%s view of a screen without such rows is not None" % kind)
                continue
            require(v is not None, kind + ".exists", "%s view missing" % kind)
            idx = np.where(want)[0].tolist()
            depth = 1
        elif kind == "set_observed":
            # the parent is changed in place (a reveal): pick an unobserved plate and mark it observed
            un = sorted(set(int(x) for x in np.asarray(screen.plate_ids)[~mask]))
            if not un:
                continue
            rows_ = np.asarray(screen.plate_ids) == un[op["a"] % len(un)]
            if op["b"] % 3 == 0 and (bits & ~mask).any():
                rows_ = bits & ~mask  # a reveal of arbitrary unobserved rows: plates may end up partly observed
            vals_ = np.linspace(0.1, 0.9, int(rows_.sum()))
            screen.set_observed(rows_, vals_)
            mask = mask | rows_
            frozen["observations"] = np.array(screen.observations, copy=True)
            frozen["observation_mask"] = np.array(screen.observation_mask, copy=True)
            mutated = True
            # views built on the parent's own mask array (observed / unobserved views) may legitimately follow the change;
            # every view must stay consistent with its own selection, and views built from copies must still match the model
            for v_i, (ov, oidx, od, okind) in enumerate(views):
                _self_consistent(ov, screen, "after_set_observed." + okind)
                if okind in ("observed", "unobserved"):
                    # whether such a view follows the parent's mask is not asserted: its model is re-read from the view itself
                    views[v_i] = (ov, np.where(np.asarray(ov.selection_vector))[0].tolist(), od, okind)
            continue
        elif kind == "merge":
            # two plates of the parent are merged in place: plate names / ids of the parent change, row attributes do not
            pids = sorted(set(int(x) for x in screen.plate_ids))
            if len(pids) < 2:
                continue
            pa, pb = pids[op["a"] % len(pids)], pids[op["b"] % len(pids)]
            if pa == pb:
                continue
            if not op["more"] and bool(mask[np.asarray(screen.plate_ids) == pa][0]) != bool(mask[np.asarray(screen.plate_ids) == pb][0]):
                continue  # mostly plates of equal observation status; otherwise the merged plate is partly observed
            screen.get_plate(pa).merge(screen.get_plate(pb))
            frozen["plate_ids"] = np.array(screen.plate_ids, copy=True)
            for ov, oidx, _, okind in views:
                _self_consistent(ov, screen, "after_merge." + okind)
            continue
        elif kind == "unique_of_screen":
            # the filter applied to the Screen itself (not to a view)
            v = filter_dataset_to_unique_treatments(screen)
            got = np.where(np.asarray(v.selection_vector))[0].tolist()
            key = lambda i: (int(screen.sample_ids[i]),) + tuple(int(x) for x in screen.treatment_ids[i])
            ks = [key(i) for i in got]
            require(len(ks) == len(set(ks)) and set(ks) == set(key(i) for i in range(n)), "unique_of_screen.exact", "unique filter on the whole screen does not keep exactly one row per condition")
            # the returned view is kept like any other view: later filters (on this screen, on views, on the second screen) must not change it
            idx = got
            depth = 1
            filter_dataset_to_unique_treatments(S.build_screen(sc))
        elif kind == "to_screen":
            pv, pidx, pd, _ = pick(op["a"])
            pl_, mk_ = np.asarray(screen.plate_ids)[np.array(pidx, dtype=int)], mask[np.array(pidx, dtype=int)]
            partly = any(len(set(mk_[pl_ == q].tolist())) > 1 for q in set(pl_.tolist()))
            try:
                m = pv.to_screen()
            except ValueError:
                # a screen with a partly observed plate cannot be constructed: materialising such rows is refused cleanly
                require(partly, "to_screen.refused", "materialising a view whose plates are each uniformly observed or unobserved was refused")
                continue
            require(m.size == len(pidx), "to_screen.size", lambda: "materialised screen has %d rows, view has %d" % (m.size, len(pidx)))
            for a in ("sample_names", "treatment_names", "treatment_doses", "observations", "observation_mask", "plate_names"):
                exp = np.asarray(getattr(screen, a))[np.array(pidx, dtype=int)]
                require(_eq(getattr(m, a), exp), "to_screen." + a, lambda: "materialised %s %r, view rows %r" % (a, np.asarray(getattr(m, a)).tolist(), exp.tolist()))
            require(str(m.control_treatment_name) == sc["control"], "to_screen.control", "control name lost")
            continue
        elif kind == "unique":
            pv, pidx, pd, _ = pick(op["a"])
            v = filter_dataset_to_unique_treatments(pv)
            got = np.where(np.asarray(v.selection_vector))[0].tolist()
            require(set(got) <= set(pidx), "unique.subset", "unique filter selected rows outside the view")
            key = lambda i: (int(screen.sample_ids[i]),) + tuple(int(x) for x in screen.treatment_ids[i])
            ks = [key(i) for i in got]
            require(len(ks) == len(set(ks)), "unique.one_per_condition", lambda: "a condition survives twice: %r" % ks)
            require(set(ks) == set(key(i) for i in pidx), "unique.every_condition", lambda: "conditions dropped entirely: %r" % sorted(set(key(i) for i in pidx) - set(ks)))
            idx = got
            depth = pd + 1
        else:
            raise Violation("case.op", "unknown op")
        _check_view(v, idx, screen, tag)
        maxdepth = max(maxdepth, depth)
        views.append((v, sorted(idx), depth, kind))
        # earlier views are unaffected by later operations
        for ov, oidx, _, okind in views[:-1][-3:]:
            _self_consistent(ov, screen, "later." + okind)
            if mutated and okind in ("observed", "unobserved"):
                continue  # built on the parent's own mask array
            sel = np.zeros(n, dtype=bool)
            sel[np.array(oidx, dtype=int)] = True
            require(np.array_equal(np.asarray(ov.selection_vector), sel), "aliasing", lambda: "an earlier %s view changed after a later %s" % (okind, kind))
    # parent never modified by view operations (other than by the set_observed steps above, which update `frozen`)
    for a in ATTRS:
        require(_eq(getattr(screen, a), frozen[a]), "parent_untouched." + a, "parent screen's %s changed" % a)

    # the unique filter on EVERY view of three rows of a small screen (ids with gaps, a replicate after another condition, ...)
    if 3 <= n <= 9 and len(case["ops"]) % 3 == 0:
        import itertools as _it

        key_ = lambda i: (int(screen.sample_ids[i]),) + tuple(int(x) for x in screen.treatment_ids[i])
        for trio in _it.combinations(range(n), 3):
            m_ = np.zeros(n, dtype=bool)
            m_[list(trio)] = True
            got_ = np.where(np.asarray(filter_dataset_to_unique_treatments(screen.subset(m_)).selection_vector))[0].tolist()
            ks_ = [key_(i) for i in got_]
            require(set(got_) <= set(trio) and len(ks_) == len(set(ks_)) and set(ks_) == set(key_(i) for i in trio), "unique.small_views", lambda: "unique filter on the view of rows %r (conditions %r) keeps rows %r" % (list(trio), [key_(i) for i in trio], got_))

    # observed/unobserved partition
    so, su = screen.subset_observed(), screen.subset_unobserved()
    io = set() if so is None else set(np.where(np.asarray(so.selection_vector))[0].tolist())
    iu = set() if su is None else set(np.where(np.asarray(su.selection_vector))[0].tolist())
    require(io == set(np.where(mask)[0].tolist()) and iu == set(np.where(~mask)[0].tolist()), "partition.by_mask", "observed/unobserved views do not split the screen by its mask")

    # cross-parent refusal
    other = S.build_screen(sc)
    a = screen.subset(np.ones(n, dtype=bool))
    b = other.subset(np.ones(n, dtype=bool))
    for name, f in (("combine", lambda: a.combine(b)), ("concat", lambda: ScreenSubset.concat([a, b]))):
        try:
            f()
        except ValueError:
            continue
        raise Violation("cross_parent." + name, "%s of views of two different screens did not raise" % name)

    # select_unique_zipped_numpy_arrays vs dict reference
    cols = [np.array(c, dtype=int) for c in case["cols"]]
    if len(cols[0]):
        got = np.asarray(select_unique_zipped_numpy_arrays(cols))
        rows = list(zip(*[c.tolist() for c in cols]))
        chosen = [rows[i] for i in np.where(got)[0]]
        require(got.dtype == bool and got.shape == (len(rows),), "zipped_unique.shape", "result is not a boolean vector over the rows")
        require(len(chosen) == len(set(chosen)) and set(chosen) == set(rows), "zipped_unique.exact", lambda: "rows %r -> kept %r" % (rows, chosen))

    return {"nontrivial": nested and union and maxdepth >= 3, "labels": ["depth=%d" % min(maxdepth, 5)] + (["nested"] if nested else []) + (["union"] if union else []), "counts": {"ops": len(case["ops"])}}
