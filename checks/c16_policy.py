"""C16 - the k-per-sample policy yields batches with zero or exactly k plates per sample (history property)."""
import numpy as np
from hypothesis import strategies as st

from vf.engine import Violation, require
from vf import randomctl
from vf import strategies as S

ID = "C16"
LEVEL = "exploration"
TECHNIQUE = "model-based generation of selection histories (every allowed plate may be picked next) with an independent policy model and per-step invariants"
RULE = (
    "k in 1..4; 1..5 (a third of the cases 9..14) samples with 0..6 single-sample unobserved plates each (counts straddling k) and 0..2 observed plates, plate names drawn so that the plate ids of "
    "different samples interleave; in a third of the cases 1..3 pairs of same-sample unobserved plates are merged in memory first; a history "
    "of up to 3k selections where each step picks ANY plate of the currently allowed set (index drawn by Hypothesis), alternately by "
    "calling filter_eligible_plates directly and through select_next_plate (batch ids as list, tuple, set, frozenset, dict keys or numpy integers) with scores making the pick the unique minimum (disallowed candidates score better still) or with all scored plates exactly tied (the selection must stay within the allowed set and the history follows it); in half the cases every selected plate is revealed in place before the next selection of the batch, as the retrospective pipeline does; plus screens "
    "with a multi-sample plate (must be refused). Non-trivial = history completes >=1 sample and opens a second. distinct = distinct case JSON."
    ' Also: late-campaign screens (dozens of unobserved plates spread over hundreds of ids) with score entries delivered twice; a generator whose draws repeat in half the cases.'
    ' Half the cases hand select_next_plate stale ids as well (-1, ids beyond the screen).'
    ' Stale-id lists also repeat a selection of the batch.'
    ' Also: a held plate object merged in place with a plate of another sample and handed to the policy again.'
)
ASSUMPTIONS = [
    "histories start from an empty batch and only follow selections the policy itself allowed (the quantifier of the property)",
    "completeness of the allowed set (nothing beyond already-selected and insufficient samples is excluded) is taken from the policy's own documented exclusion list",
]


def budgets(tier):
    if tier == "quick":
        return {"examples": 3000, "max_s": 80, "shrink_s": 20, "shards": 1}
    return {"examples": 15000, "max_s": 700, "shrink_s": 90, "shards": 16}


@st.composite
def _case(draw):
    k = draw(st.integers(1, 4))
    ns = draw(st.one_of(st.integers(1, 5), st.integers(1, 5), st.integers(9, 14)))  # (hash-ordered containers of small ints stop being sorted from 9 on)
    samples = []
    for _ in range(ns):
        u = draw(st.one_of(st.integers(0, 6), st.sampled_from([k - 1, k, k + 1, 2 * k]))) if True else 0
        samples.append({"unobs": max(0, u), "obs": draw(st.integers(0, 2)), "rows": draw(st.integers(1, 2))})
    return {
        "k": k,
        "samples": samples,
        "picks": draw(st.lists(st.integers(0, 50), min_size=0, max_size=3 * k)),
        "via_select": draw(st.booleans()),
        "merges": draw(st.one_of(st.just([]), st.just([]), st.lists(st.tuples(st.integers(0, 9), st.integers(0, 9)), min_size=1, max_size=3))),
        # as the retrospective pipeline does: every selected plate is revealed (set_observed) before the next selection of the batch
        "reveal_selected": draw(st.booleans()),
        # plate ids follow the sorted plate names: a drawn key decides the order, so ids of different samples interleave
        "name_keys": draw(st.lists(st.integers(0, 99), min_size=40, max_size=40)),
        "multi": draw(st.integers(0, 7)) == 0,
        "multi_observed": draw(st.booleans()),
        # some score entries arrive twice (a chunk of scores delivered again after a retry): the holder takes them, the selection must
        # not be affected
        "dup_scores": draw(st.booleans()),
        "stale_ids": draw(st.booleans()),
    }


def strategy(tier):
    return _case()


def exhaustive(tier):
    # a large, mostly observed screen late in a campaign: a few dozen unobserved plates spread thinly over hundreds of plate ids
    # (one sample with many plates left, others with just k), scores with repeated entries
    for k, many, obs, picks in [(2, 26, 200, [0, 1, 1, 2]), (3, 40, 150, [5, 1, 2, 1, 0, 4]), (2, 26, 200, [1, 3, 0, 2])] + ([(2, 60, 400, [1, 4, 7, 2]), (1, 30, 300, [2, 9]), (4, 35, 120, [1, 2, 4, 5, 7, 8, 1, 2])] if tier != "quick" else []):
        samples = [{"unobs": many, "obs": obs, "rows": 1}, {"unobs": k, "obs": obs, "rows": 1}, {"unobs": k, "obs": obs // 2, "rows": 1}]
        yield {"k": k, "samples": samples, "picks": picks, "via_select": True, "merges": [], "reveal_selected": False, "name_keys": [(i * 37 + 11) % 100 for i in range(40)], "multi": False, "multi_observed": False, "dup_scores": True, "select_every_step": True, "prefer_sample": "s0", "stale_ids": k % 2 == 0}


def _build(case):
    rows = []
    observed = []
    keys = list(case.get("name_keys", []))
    counter = [0]

    def pname(i, kind, j):
        k = keys[counter[0] % len(keys)] if keys else 0
        counter[0] += 1
        return "%02d_s%d_%s%d" % (k, i, kind, j)  # the sort key comes first: ids interleave across samples

    for i, smp in enumerate(case["samples"]):
        for j in range(smp["unobs"]):
            name = pname(i, "u", j)
            for r in range(smp["rows"]):
                rows.append({"s": "s%d" % i, "p": name, "t": ["t%d" % r, "t9"], "d": [1.0, 1.0], "o": 0.5})
        for j in range(smp["obs"]):
            name = pname(i, "o", j)
            rows.append({"s": "s%d" % i, "p": name, "t": ["t0", "t9"], "d": [1.0, 1.0], "o": 0.5})
            observed.append(name)
    if case["multi"]:
        name = "%02d_mixed" % (keys[-1] if keys else 0)  # drawn sort key: the two-sample plate takes an id another plate had on a smaller screen
        rows.append({"s": "s0", "p": name, "t": ["t0", "t9"], "d": [1.0, 1.0], "o": 0.5})
        rows.append({"s": "sX", "p": name, "t": ["t0", "t9"], "d": [1.0, 1.0], "o": 0.5})
        if case["multi_observed"]:
            observed.append(name)
    return {"arity": 2, "control": "ctl", "rows": rows, "observed": sorted(observed)}


def check_case(case):
    from batchie.policies.k_per_sample import KPerSamplePlatePolicy
    from batchie.scoring.main import ChunkedScoresHolder, select_next_plate

    k = case["k"]
    sc = _build(case)
    if not sc["rows"]:
        return {"nontrivial": False, "labels": ["empty"]}
    screen = S.build_screen(sc)
    # in some cases unobserved plates of one sample are first merged in memory (what the merge smoothers do): the policy then
    # works on the screen as it is now - fewer plates, plate ids re-encoded
    for a_, b_ in case.get("merges", []):
        cands = {}
        for p_ in screen.plates:
            if not bool(np.all(p_.observation_mask)):
                nm = sorted(set(str(x) for x in p_.sample_names))
                if len(nm) == 1:
                    cands.setdefault(nm[0], []).append(p_)
        groups = [v for _, v in sorted(cands.items()) if len(v) >= 2]
        if not groups:
            break
        g = groups[a_ % len(groups)]
        g = sorted(g, key=lambda p_: int(p_.plate_id))
        g[b_ % len(g)].merge(g[(b_ + 1) % len(g)])
    policy = KPerSamplePlatePolicy(k)
    rng = randomctl.make_rng(0, [None, None, [0, 1], [0, 1, 1, 0, 0]][len(case["picks"]) % 4])  # (now and then a generator whose draws repeat)
    keys = list(case.get("name_keys", []))
    plates = {int(p.plate_id): p for p in screen.plates}
    sample_of = {}
    unobs_ids = []
    for pid, p in plates.items():
        names = sorted(set(str(x) for x in p.sample_names))
        sample_of[pid] = names
        if not bool(np.all(p.observation_mask)):
            unobs_ids.append(pid)
    unobs_ids.sort()

    def call_policy(batch):
        batch_plates = [plates[b] for b in sorted(batch)]
        rest = [plates[u] for u in unobs_ids if u not in batch]
        return policy.filter_eligible_plates(batch_plates=batch_plates, unobserved_plates=rest, rng=rng)

    multi_unobserved = case["multi"] and not case["multi_observed"]
    if multi_unobserved:
        # the same policy object has been used before on a screen whose plates are all single-sample (a policy is a
        # long-lived configuration object; plate ids are only meaningful within one screen)
        clean = _build(dict(case, multi=False))
        if clean["rows"]:
            s0 = S.build_screen(clean)
            p0 = sorted((p_ for p_ in s0.plates if not bool(np.all(p_.observation_mask))), key=lambda p_: int(p_.plate_id))
            policy.filter_eligible_plates(batch_plates=[], unobserved_plates=p0, rng=rng)
        # a plate with two samples among the candidates: refused
        try:
            call_policy([])
        except ValueError:
            return {"nontrivial": True, "labels": ["multi-sample-plate-refused"]}
        raise Violation("multi_sample.refused", "policy accepted a candidate plate that contains two samples")

    def with_stale(b, step_):
        # the pipeline hands every earlier selection of the batch to the next step, among them the marker -1 it records when nothing
        # was allowed (and, after a re-plan, ids the current screen no longer has): ids that name no plate take part in nothing
        if not case.get("stale_ids"):
            return b
        extra_ = [[-1], [-1, -1], [10**6], [-1, len(plates) + 3]][(step_ + len(case["picks"])) % 4]
        if b and (step_ + len(case["picks"])) % 3 != 1:
            extra_ = extra_ + [b[-1] if step_ % 4 < 2 else b[0]]  # ... or a selection listed twice: still one plate of the batch
        return (list(b) + extra_) if step_ % 2 else (extra_ + list(b))

    batch = []
    completed = 0
    opened = 0
    revealed = 0
    labels = ["k=%d" % k]
    for step, pick in enumerate(case["picks"] + [0]):
        got = call_policy(batch)
        got_ids = sorted(int(p.plate_id) for p in got)
        require(len(set(got_ids)) == len(got_ids), "allowed.duplicates", lambda: "a plate is listed twice: %r" % got_ids)
        # --- independent model
        cb = {}
        for b in batch:
            cb[sample_of[b][0]] = cb.get(sample_of[b][0], 0) + 1
        rem = {}
        for u in unobs_ids:
            if u not in batch:
                rem.setdefault(sample_of[u][0], []).append(u)
        in_progress = sorted(s for s, v in cb.items() if 1 <= v <= k - 1)
        require(len(in_progress) <= 1, "history.one_incomplete", lambda: "batch %r has incomplete samples %r" % (batch, in_progress))
        if len(batch) % k == 0:
            require(all(v == k for v in cb.values()), "history.zero_or_k", lambda: "batch of %d plates with k=%d has per-sample counts %r" % (len(batch), k, cb))
        candidates = set(u for u in unobs_ids if u not in batch)
        require(set(got_ids) <= candidates, "allowed.subset", lambda: "allowed %r not within unobserved-not-in-batch %r" % (got_ids, sorted(candidates)))
        if in_progress:
            s = in_progress[0]
            model = sorted(rem.get(s, []))
            require(all(sample_of[g][0] == s for g in got_ids), "allowed.only_sample_in_progress", lambda: "sample %s has %d/%d plates in the batch but plates %r of other samples are allowed" % (s, cb[s], k, got_ids))
            require(len(got_ids) >= 1, "allowed.in_progress_nonempty", lambda: "sample %s has %d/%d plates in the batch but nothing is allowed" % (s, cb[s], k))
        else:
            model = sorted(u for s, us in rem.items() if s not in cb and len(us) >= k for u in us)
            for g in got_ids:
                s = sample_of[g][0]
                require(s not in cb, "allowed.completed_sample_readmitted", lambda: "plate %d of already completed sample %s is allowed again" % (g, s))
                require(len(rem[s]) >= k, "allowed.insufficient_sample_opened", lambda: "sample %s has only %d plates left (k=%d) but may be opened" % (s, len(rem[s]), k))
        require(set(model) <= set(got_ids), "allowed.missing", lambda: "policy excludes plates %r although their sample is neither completed nor short of plates (allowed %r, batch %r)" % (sorted(set(model) - set(got_ids)), got_ids, batch))
        require(got_ids == model, "allowed.model", lambda: "allowed %r, model %r" % (got_ids, model))
        if not got_ids or step == len(case["picks"]):
            if not got_ids and case["via_select"]:
                sh = ChunkedScoresHolder(len(candidates))
                for c in sorted(candidates):
                    sh.add_score(c, 0.0)
                r, _kind = S.call_with_container(lambda b_: select_next_plate(scores=sh, screen=screen, policy=policy, batch_plate_ids=b_, rng=rng), with_stale(batch, step), S.CONTAINERS[(step + k) % len(S.CONTAINERS)])
                require(r is None, "select.none_when_nothing_allowed", "select_next_plate returned a plate although the policy allows none")
            break
        pool_ = [g for g in got_ids if sample_of[g][0] == case.get("prefer_sample")] or got_ids
        chosen = pool_[pick % len(pool_)]
        if case["via_select"] and (step % 2 == 0 or case.get("select_every_step")):
            order_ = sorted(candidates, key=lambda c_: (keys[(c_ + step) % len(keys)] if keys else 0, c_))  # not ascending by plate id
            if case.get("dup_scores"):
                order_ = order_ + order_[step % 2 :: 2]  # every other entry once more
            sh = ChunkedScoresHolder(len(order_))
            tie = pick % 3 == 0
            for c in order_:
                # either the pick is the unique minimum among the allowed plates (disallowed ones score better still), or every
                # scored plate - allowed or not - has exactly the same score (equally sized plates under the size scorer)
                sh.add_score(c, 1.5 if tie else (-5.0 if c == chosen else (-9.0 if c not in got_ids else float(c))))
            r, _kind = S.call_with_container(lambda b_: select_next_plate(scores=sh, screen=screen, policy=policy, batch_plate_ids=b_, rng=rng), with_stale(batch, step), S.CONTAINERS[(step + pick) % len(S.CONTAINERS)])
            if tie:
                require(r is not None and int(r.plate_id) in got_ids, "select.tie_stays_within_allowed", lambda: "all scored plates tie; select_next_plate returned %r, which the policy does not allow (allowed %r)" % (None if r is None else int(r.plate_id), got_ids))
                chosen = int(r.plate_id)
            else:
                require(r is not None and int(r.plate_id) == chosen, "select.picks_best_allowed", lambda: "select_next_plate returned %r, the best allowed plate is %d (allowed %r)" % (None if r is None else int(r.plate_id), chosen, got_ids))
        s = sample_of[chosen][0]
        if s not in cb:
            opened += 1
        batch.append(chosen)
        if case.get("reveal_selected"):
            sel_ = np.asarray(plates[chosen].selection_vector)
            screen.set_observed(sel_, np.full(int(sel_.sum()), 0.5))
            revealed += 1
        if cb.get(s, 0) + 1 == k:
            completed += 1
    # plate objects a caller keeps across policy calls: two of them (different samples) are merged in place afterwards; handed to the
    # policy again, the merged object holds two samples and is refused like any multi-sample plate
    held = sorted((p_ for p_ in screen.plates if not bool(np.all(p_.observation_mask))), key=lambda p_: int(p_.plate_id))
    by_sample = {}
    for p_ in held:
        nm_ = sorted(set(str(x) for x in p_.sample_names))
        if len(nm_) == 1:
            by_sample.setdefault(nm_[0], []).append(p_)
    if len(by_sample) >= 2 and not case.get("reveal_selected") and len(case["picks"]) % 2 == 0:
        try:
            policy.filter_eligible_plates(batch_plates=[], unobserved_plates=held, rng=rng)
        except ValueError:
            pass
        groups_ = [v for _, v in sorted(by_sample.items())]
        pa_, pb_ = groups_[0][0], groups_[1][len(case["picks"]) % len(groups_[1])]
        merged_ = pa_.merge(pb_)
        two_ = merged_ if merged_ is not None else pa_
        if len(set(str(x) for x in two_.sample_names)) >= 2:
            try:
                policy.filter_eligible_plates(batch_plates=[], unobserved_plates=[two_] + [p_ for p_ in held if p_ is not pa_ and p_ is not pb_], rng=rng)
            except ValueError:
                labels.append("merged-two-sample-plate-refused")
            else:
                raise Violation("multi_sample.refused_after_merge", "a plate object the policy had seen before, since merged in place with a plate of another sample (it now holds %r), was accepted as a candidate" % sorted(set(str(x) for x in two_.sample_names)))
    if completed:
        labels.append("completed>=1")
    if revealed:
        labels.append("selected-plates-revealed-mid-batch")
    return {"nontrivial": completed >= 1 and opened >= 2, "labels": labels + ["steps=%d" % min(len(batch), 6)], "counts": {"selections": len(batch)}}
