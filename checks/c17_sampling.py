"""C17 - sampling follows the burn-in/thinning schedule; each chain gets its own stream."""
import numpy as np
from hypothesis import strategies as st

from vf import strategies as S
from vf.engine import Violation, require

ID = "C17"
LEVEL = "exploration"
TECHNIQUE = "exhaustive small (b,t,n) grid + Hypothesis-generated configurations against a step-counting model and numpy's SeedSequence.spawn as reference"
RULE = (
    "(every MCMC triple is also sampled with progress_bar=True and the batchie logger at DEBUG: generator, schedule and completeness must not change) "
    "exhaustive b<=6,t<=4,n<=5 with a counting MCMC model; generated b in 0..12 (also 100, 1000), t in 1..6 (also 10, 25), n in 1..8 (also 20, 100, 257, 600, 1025), seeds in {0, small, up to 2^63}, "
    "n_chains 1..6 with two chain indices; a cross-process sweep (fixed triples sampled in three different orders in three interpreters must get the same streams); a counting VI model; the real SparseDrugCombo sampler in 1 of 8 cases. "
    "Non-trivial = b>0 and t>1 and n_chains>1 (exhaustive grid: b>0 and t>1). distinct = distinct case JSON."
    ' Also: schedules of 2**31 .. 2**63 steps followed for a bounded number of steps by a counting model that then gives up.'
)
ASSUMPTIONS = [
    "stream non-overlap is checked on disjointness of 1000-output prefixes of any two chains; agreement with numpy's SeedSequence(seed).spawn(n_chains)[i] is reported as a class label, not required (the statement does not prescribe the mechanism)",
    "seeds are non-negative integers (numpy's SeedSequence domain)",
]


def budgets(tier):
    if tier == "quick":
        return {"examples": 3000, "max_s": 60, "shrink_s": 15, "shards": 1}
    return {"examples": 20000, "max_s": 600, "shrink_s": 60, "shards": 16}


SWEEP_TRIPLES = [(s_, n_, c_) for s_ in (0, 7, 2**40 + 3) for n_ in (1, 2, 3, 5) for c_ in range(n_)]


def sweep_streams(order):
    """worker entry: first outputs of the generator handed to the model, for the fixed triples visited in the given order"""
    from batchie import sampling
    from batchie.core import ThetaHolder

    Counting, _, _ = _models()
    out = {}
    for i in order:
        seed, n_chains, chain = SWEEP_TRIPLES[i]
        m = Counting()
        sampling.sample(model=m, results=ThetaHolder(n_thetas=1), seed=seed, n_chains=n_chains, chain_index=chain, n_burnin=0, thin=1)
        out[str(i)] = [int(x) for x in _prefix(m.rng, 6)]
    return out


def _order_sweep(case):
    import json
    import os
    import subprocess
    import sys

    from vf.engine import ROOT
    from vf.tree import REPO, HarnessError

    n = len(SWEEP_TRIPLES)
    orders = {"reversed": list(range(n - 1, -1, -1)), "by_chain_count_desc": sorted(range(n), key=lambda i: (-SWEEP_TRIPLES[i][1], SWEEP_TRIPLES[i][0], SWEEP_TRIPLES[i][2]))}
    procs = []
    for name, order in orders.items():
        code = "import sys, json; sys.path.insert(0, %r); from vf import tree; tree.activate(); from checks import c17_sampling as m; print('SWEEP' + json.dumps(m.sweep_streams(%r)))" % (ROOT, order)
        env = dict(os.environ, BATCHIE_REPO=REPO, PYTHONDONTWRITEBYTECODE="1")
        procs.append((name, subprocess.Popen([sys.executable, "-c", code], env=env, stdout=subprocess.PIPE, stderr=subprocess.PIPE, text=True)))
    here = sweep_streams(list(range(n)))  # this interpreter: ascending order (and whatever other cases sampled before)
    compared = 0
    for name, p in procs:
        so, se = p.communicate(timeout=600)
        line = [l for l in so.splitlines() if l.startswith("SWEEP")]
        if p.returncode != 0 or not line:
            raise HarnessError("order-sweep worker failed (rc=%r): %s" % (p.returncode, se[-400:]))
        other = json.loads(line[0][5:])
        for i in range(n):
            require(other[str(i)] == here[str(i)], "rng.depends_on_call_history", lambda: "the generator for (seed, n_chains, chain) = %r differs between a process that sampled the triples in ascending order and one that sampled them in the order %s" % (SWEEP_TRIPLES[i], name))
            compared += 1
    # distinct chains of one (seed, n_chains) have different streams
    for s_, n_ in {(t[0], t[1]) for t in SWEEP_TRIPLES}:
        idx = [i for i, t in enumerate(SWEEP_TRIPLES) if t[0] == s_ and t[1] == n_]
        streams = [tuple(here[str(i)]) for i in idx]
        require(len(set(streams)) == len(streams), "rng.chains_disjoint", lambda: "two chains of (seed=%r, n_chains=%d) got the same stream" % (s_, n_))
    return {"nontrivial": True, "labels": ["order-sweep"], "counts": {"cross_process_stream_comparisons": compared}, "key": ["order-sweep"]}


_CLI_SCREEN = {"arity": 2, "control": "ctl", "ns": 2, "nt": 4, "observed": ["p0", "p1"], "rows": [
    {"s": "s0", "p": "p0", "t": ["t0", "t1"], "d": [1.0, 1.0], "o": 0.3}, {"s": "s1", "p": "p0", "t": ["t1", "t0"], "d": [2.0, 1.0], "o": 0.6},
    {"s": "s0", "p": "p1", "t": ["t0", "ctl"], "d": [1.0, 0.0], "o": 0.7}, {"s": "s1", "p": "p1", "t": ["ctl", "t1"], "d": [0.0, 1.0], "o": 0.45},
    {"s": "s0", "p": "p2", "t": ["t1", "t1"], "d": [1.0, 2.0], "o": 0.5}]}


def _check_cli(case):
    """the train_model command is the production caller of sampling.sample: the collection it writes for (b, t, n, seed, n_chains, chain)
    holds exactly the samples a direct call records for those values - a burn-in of 0 included"""
    from batchie import sampling
    from batchie.core import ThetaHolder
    from batchie.data import ExperimentSpace
    from batchie.models.sparse_combo import SparseDrugCombo
    from vf import tmp
    from vf.cli import run_cli, warm

    warm()
    tm, sm = S.space_mappings(2, 4)
    screen = S.build_screen(_CLI_SCREEN, treatment_mapping=tm, sample_mapping=sm)
    b, t, n = case["b"], case["t"], case["n"]
    seed, n_chains, chain = case["seed"], case["n_chains"], case["chain"]
    sfile, ofile = tmp.fresh("screen.h5"), tmp.fresh("thetas.h5")
    try:
        screen.save_h5(sfile)
        with np.errstate(all="ignore"):
            run_cli("train_model", ["--data", sfile, "--model", "SparseDrugCombo", "--model-param", "n_embedding_dimensions=2", "--n-samples", n, "--n-burnin", b, "--thin", t, "--n-chains", n_chains, "--chain-index", chain, "--seed", seed, "--output", ofile], verbose=case.get("verbose", False))
            got = ThetaHolder.load_h5(ofile)
            model = SparseDrugCombo(experiment_space=ExperimentSpace.from_screen(screen), n_embedding_dimensions=2)
            model.add_observations(screen.subset_observed())
            ref = sampling.sample(model=model, results=ThetaHolder(n_thetas=n), seed=seed, n_chains=n_chains, chain_index=chain, n_burnin=b, thin=t)
    finally:
        tmp.cleanup(sfile, ofile)
    require(len(got.thetas) == n, "cli.count", lambda: "train_model wrote %d samples for --n-samples %d" % (len(got.thetas), n))
    for k_, (a_, r_) in enumerate(zip(got.thetas, ref.thetas)):
        da, dr = a_.private_parameters_dict(), r_.private_parameters_dict()
        same = sorted(da) == sorted(dr) and all(S.same_bits(np.asarray(da[x_], dtype=float), np.asarray(dr[x_], dtype=float)) for x_ in da)
        require(same, "cli.same_samples_as_direct_call", lambda: "train_model --n-burnin %d --thin %d --n-samples %d --seed %d --n-chains %d --chain-index %d: sample %d differs from the one a direct sampling.sample call with these values records" % (b, t, n, seed, n_chains, chain, k_))
    return {"nontrivial": b == 0 or t > 1, "labels": ["cli", "cli.b=0" if b == 0 else "cli.b>0"]}


def exhaustive(tier):
    yield {"kind": "order-sweep"}
    for b, t, n, v in ((0, 1, 2, False), (0, 2, 3, True), (1, 1, 1, False), (2, 3, 2, True)):
        yield {"kind": "cli", "b": b, "t": t, "n": n, "seed": 11, "n_chains": 2, "chain": 1, "verbose": v}
    for b in range(0, 7):
        for t in range(1, 5):
            for n in range(1, 6):
                yield {"kind": "mcmc", "b": b, "t": t, "n": n, "seed": 7, "n_chains": 2, "chain": 1, "other": 0}
    # schedules whose total length crosses 2**31 / 2**32 steps or comes close to 2**63 (beyond that the pinned tree itself refuses with OverflowError): followed for a bounded number of steps only (the counting
    # model gives up after `budget` steps), by which time nothing may have ended and every recording must be on schedule
    for b, t, n, budget in [(3, 65536, 65536, 140000), (0, 2**31, 1, 2000), (2, 1, 2**31 + 5, 3000), (1, 2**16, 2**15, 70000), (5, 3, 2**31 // 3 + 7, 2000)] + ([(0, 2**32 + 1, 2, 1000), (7, 2**20, 2**12, 2**21 + 50), (0, 46341, 46341, 100000), (1, 2**31, 2**31, 500), (0, 3037000499, 3037000499, 500)] if tier != "quick" else []):
        yield {"kind": "mcmc_huge", "b": b, "t": t, "n": n, "budget": budget, "seed": 5, "n_chains": 3, "chain": 2}


@st.composite
def _case(draw):
    kind = draw(st.sampled_from(["mcmc"] * 12 + ["vi", "vi", "real", "real", "cli"]))
    n_chains = draw(st.integers(1, 6))
    chain = draw(st.integers(0, n_chains - 1))
    other = draw(st.integers(0, n_chains - 1))
    seed = draw(st.one_of(st.sampled_from([0, 1, 12, 2**32 - 1, 2**32, 2**63 - 1, 2**63]), st.integers(0, 2**64 - 1)))
    c = {
        "kind": kind,
        "b": draw(st.one_of(st.integers(0, 12), st.sampled_from([0, 1, 100, 1000]))),
        "t": draw(st.one_of(st.integers(1, 6), st.sampled_from([1, 10, 25]))),
        "n": draw(st.one_of(st.integers(1, 8), st.sampled_from([1, 20, 100, 257, 600, 1025]))),
        "seed": seed,
        "n_chains": n_chains,
        "chain": chain,
        "other": other,
        "b2": draw(st.integers(0, 5)),
        "t2": draw(st.integers(1, 3)),
        "n2": draw(st.integers(1, 3)),
    }
    if kind == "cli":
        c["b"], c["t"], c["n"], c["seed"] = min(c["b"], 3), min(c["t"], 3), min(c["n"], 3), seed % (2**31)
        c["verbose"] = draw(st.booleans())
    if kind == "real":
        c["screen"] = draw(S.simple_screen(n_rows=(2, 8), allow_same=False, obs=st.floats(min_value=0.05, max_value=0.95)))
        c["b"] = min(c["b"], 3)
        c["t"] = min(c["t"], 3)
        c["n"] = min(c["n"], 4)
    return c


def strategy(tier):
    return _case()


def _models():
    from batchie.core import BayesianModel, MCMCModel, VIModel, Theta

    class StepTheta(Theta):
        def __init__(self, k):
            self.k = k

    class Counting(BayesianModel, MCMCModel):
        def __init__(self):
            self.events = []
            self.steps = 0
            self._rng = None

        def set_rng(self, rng):
            self.events.append(("set_rng", self.steps))
            self._rng = rng

        @property
        def rng(self):
            return self._rng

        def _add_observations(self, data):
            pass

        def n_obs(self):
            return 0

        def reset_model(self):
            self.events.append(("reset", self.steps))

        def step(self):
            self.steps += 1
            self.events.append(("step", self.steps))

        def get_model_state(self):
            self.events.append(("state", self.steps))
            return StepTheta(self.steps)

    class CountingVI(BayesianModel, VIModel):
        def __init__(self):
            self.events = []
            self._rng = None

        def set_rng(self, rng):
            self.events.append(("set_rng",))
            self._rng = rng

        @property
        def rng(self):
            return self._rng

        def _add_observations(self, data):
            pass

        def n_obs(self):
            return 0

        def reset_model(self):
            self.events.append(("reset",))

        def sample(self, num_samples):
            self.events.append(("sample", num_samples))
            return [StepTheta(100 + i) for i in range(num_samples)]

    return Counting, CountingVI, StepTheta


_BIRTHDAY = {"runs": 0}


def _prefix(rng, k=1000):
    return rng.integers(0, 2**64, size=k, dtype=np.uint64, endpoint=False)


def _ref_prefix(seed, n_chains, chain, k=1000):
    return _prefix(np.random.default_rng(np.random.SeedSequence(seed).spawn(n_chains)[chain]), k)


def _check_schedule(events, b, t, n, tag):
    steps = [e for e in events if e[0] == "step"]
    states = [e[1] for e in events if e[0] == "state"]
    resets = [i for i, e in enumerate(events) if e[0] == "reset"]
    first_step = next((i for i, e in enumerate(events) if e[0] == "step"), len(events))
    require(len(resets) >= 1 and resets[0] < first_step, tag + ".reset_before_steps", lambda: "model not reset before the first step: %r" % events[:5])
    require(all(i < first_step for i in resets), tag + ".no_reset_after_step", "model reset after stepping")
    rset = [i for i, e in enumerate(events) if e[0] == "set_rng"]
    require(len(rset) >= 1 and rset[0] < first_step, tag + ".rng_before_steps", "generator not handed over before the first step")
    require(len(steps) == b + n * t, tag + ".total_steps", lambda: "b=%d t=%d n=%d: %d steps taken, expected %d" % (b, t, n, len(steps), b + n * t))
    exp = [b + (i + 1) * t for i in range(n)]
    require(states == exp, tag + ".recorded_steps", lambda: "b=%d t=%d n=%d: states recorded after steps %r, expected %r" % (b, t, n, states, exp))


def check_case(case):
    from batchie import sampling
    from batchie.core import ThetaHolder

    if case["kind"] == "order-sweep":
        return _order_sweep(case)
    if case["kind"] == "cli":
        return _check_cli(case)
    Counting, CountingVI, StepTheta = _models()
    if case["kind"] == "mcmc_huge":
        b, t, n, budget = case["b"], case["t"], case["n"], case["budget"]

        class GiveUp(Exception):
            pass

        class Bounded(Counting):
            def step(self):
                if self.steps >= budget:
                    raise GiveUp()
                Counting.step(self)

        m = Bounded()
        require(budget < b + n * t, "harness", "budget covers the whole schedule")
        try:
            out = sampling.sample(model=m, results=ThetaHolder(n_thetas=n), seed=case["seed"], n_chains=case["n_chains"], chain_index=case["chain"], n_burnin=b, thin=t)
        except GiveUp:
            out = None
        require(out is None, "mcmc.huge.ended_early", lambda: "b=%d t=%d n=%d: sample() returned after %d steps with %d samples recorded; the schedule has %d steps" % (b, t, n, m.steps, len(out.thetas), b + n * t))
        require(m.steps == budget, "mcmc.huge.steps", lambda: "b=%d t=%d n=%d: %d steps taken before the model gave up at %d" % (b, t, n, m.steps, budget))
        states = [e[1] for e in m.events if e[0] == "state"]
        exp = [b + (i + 1) * t for i in range(min(n, (budget - b) // t if budget >= b else 0))]
        require(states == exp, "mcmc.huge.recorded_steps", lambda: "b=%d t=%d n=%d: during the first %d steps states were recorded after steps %r..., expected %r..." % (b, t, n, budget, states[:5], exp[:5]))
        return {"nontrivial": True, "labels": ["mcmc-schedule>=2^%d" % ((n * t).bit_length() - 1)]}
    b, t, n = case["b"], case["t"], case["n"]
    seed, n_chains, chain = case["seed"], case["n_chains"], case["chain"]
    labels = [case["kind"]]
    if case["kind"] == "vi":
        m = CountingVI()
        h = ThetaHolder(n_thetas=n)
        out = sampling.sample(model=m, results=h, seed=seed)
        calls = [e for e in m.events if e[0] == "sample"]
        require(calls == [("sample", n)], "vi.sample_once", lambda: "VI model sample() calls: %r, expected one call with %d" % (calls, n))
        require(out.is_complete and [th.k for th in out.thetas] == [100 + i for i in range(n)], "vi.stored_in_order", "VI samples not stored completely / in order")
        return {"nontrivial": n > 1, "labels": labels}

    if case["kind"] == "real":
        from batchie.data import ExperimentSpace
        from batchie.models.sparse_combo import SparseDrugCombo

        sc = case["screen"]
        tm, sm = S.space_mappings(sc["ns"], sc["nt"])
        screen = S.build_screen(dict(sc, observed=sorted({r["p"] for r in sc["rows"]})), treatment_mapping=tm, sample_mapping=sm)
        model = SparseDrugCombo(experiment_space=ExperimentSpace.from_screen(screen), n_embedding_dimensions=2)
        model.add_observations(screen)
        events = []
        count = [0]
        o_step, o_state, o_reset, o_set = model.step, model.get_model_state, model.reset_model, model.set_rng

        def step():
            count[0] += 1
            events.append(("step", count[0]))
            return o_step()

        def state():
            events.append(("state", count[0]))
            return o_state()

        def reset():
            events.append(("reset", count[0]))
            return o_reset()

        def set_rng(r):
            events.append(("set_rng", count[0]))
            return o_set(r)

        model.step, model.get_model_state, model.reset_model, model.set_rng = step, state, reset, set_rng
        st0 = np.random.get_state()
        try:
            h = sampling.sample(model=model, results=ThetaHolder(n_thetas=n), seed=seed % (2**32), n_chains=n_chains, chain_index=chain, n_burnin=b, thin=t)
        finally:
            np.random.set_state(st0)
        _check_schedule(events, b, t, n, "real")
        require(h.is_complete and len(h.thetas) == n, "real.complete", "holder not complete after sampling")
        return {"nontrivial": b > 0 and t > 1, "labels": labels}

    m = Counting()
    h = ThetaHolder(n_thetas=n)
    out = sampling.sample(model=m, results=h, seed=seed, n_chains=n_chains, chain_index=chain, n_burnin=b, thin=t)
    _check_schedule(m.events, b, t, n, "mcmc")
    require(out.is_complete and len(out.thetas) == n, "mcmc.complete", lambda: "collection holds %d of %d samples" % (len(out.thetas), n))
    require([th.k for th in out.thetas] == [b + (i + 1) * t for i in range(n)], "mcmc.stored_states", "stored states are not the states after steps b+t, b+2t, ...")
    require(isinstance(m.rng, np.random.Generator), "rng.type", "model did not receive a numpy Generator")
    # the same model object sampled again (e.g. a second collection): the schedule starts over
    n_ev = len(m.events)
    steps_before = m.steps
    out_again = sampling.sample(model=m, results=ThetaHolder(n_thetas=case.get("n2", 1)), seed=seed, n_chains=n_chains, chain_index=chain, n_burnin=case.get("b2", 0), thin=case.get("t2", 1))
    ev2 = [(k_, (v_ - steps_before) if k_ in ("step", "state") else v_) for k_, v_ in m.events[n_ev:]]
    _check_schedule(ev2, case.get("b2", 0), case.get("t2", 1), case.get("n2", 1), "mcmc.second_run")
    require(out_again.is_complete, "mcmc.second_run.complete", "second collection from the same model is not complete")
    own = _prefix(m.rng)
    ref = _ref_prefix(seed, n_chains, chain)
    # informational only: the statement does not prescribe the mechanism, so disagreement with numpy's spawn is
    # not a violation as long as the stream is a function of the triple and differs between chains (checked below)
    labels.append("agrees-with-SeedSequence.spawn" if np.array_equal(own, ref) else "other-seeding-mechanism")
    if not np.array_equal(own, ref) and _BIRTHDAY["runs"] < 2:
        # a mechanism other than numpy's spawn: the streams of up to 12000 chains of ONE run are compared wholesale (20 s at most):
        # seed material narrower than about 27 bits shows as two chains with the same first outputs.  A 32-bit funnel would need
        # ~10^5 chains of one run, whose cost grows with the square of that number - beyond what a generated search can pay (see
        # DESIGN.md 5.6, C17-9).  Not run for numpy's own mechanism, whose children differ in 128 bits.
        import time as _time

        _BIRTHDAY["runs"] += 1
        N_ = 12000
        t_end, firsts = _time.time() + 20.0, {}
        for c_ in range(N_):
            if _time.time() > t_end:
                break
            mb = Counting()
            sampling.sample(model=mb, results=ThetaHolder(n_thetas=1), seed=seed, n_chains=N_, chain_index=c_, n_burnin=0, thin=1)
            key_ = tuple(int(x_) for x_ in mb.rng.integers(0, 2**63, size=2))
            require(key_ not in firsts, "rng.chains_distinct_birthday", lambda: "seed %d, %d chains: chains %d and %d are handed generators with identical output" % (seed, N_, firsts[key_], c_))
            firsts[key_] = c_
        labels.append("birthday-search")
    # same triple, different schedule -> identical generator
    m2 = Counting()
    sampling.sample(model=m2, results=ThetaHolder(n_thetas=case.get("n2", 1)), seed=seed, n_chains=n_chains, chain_index=chain, n_burnin=case.get("b2", 0), thin=case.get("t2", 1))
    require(np.array_equal(_prefix(m2.rng), own), "rng.depends_only_on_triple", "generator changed with burn-in/thinning/count")
    # ... including what a model derives from it: sub-generators spawned from the generators of two runs with the same triple agree
    if hasattr(m.rng, "spawn") and hasattr(m2.rng, "spawn"):
        kids = [g.spawn(2) for g in (m.rng, m2.rng)]
        for j_ in range(2):
            a_, b_ = kids[0][j_].integers(0, 2**62, size=4), kids[1][j_].integers(0, 2**62, size=4)
            require(np.array_equal(a_, b_), "rng.spawned_children_depend_only_on_triple", "sub-generators spawned from the generators handed to two models for the same (seed, n_chains, chain_index) differ (the second run's generator carries over what the first one spawned)")
    # ... nor on how the run reports its progress: a progress bar, verbose logging
    import contextlib
    import io
    import logging

    m4 = Counting()
    lg = logging.getLogger("batchie")
    old_level, old_disable = lg.level, logging.root.manager.disable
    sink = logging.NullHandler()
    try:
        lg.addHandler(sink)
        lg.setLevel(logging.DEBUG)
        logging.disable(logging.NOTSET)
        with contextlib.redirect_stderr(io.StringIO()), contextlib.redirect_stdout(io.StringIO()):
            out4 = sampling.sample(model=m4, results=ThetaHolder(n_thetas=case.get("n2", 1)), seed=seed, n_chains=n_chains, chain_index=chain, n_burnin=case.get("b2", 0), thin=case.get("t2", 1), progress_bar=True)
    finally:
        lg.setLevel(old_level)
        lg.removeHandler(sink)
        logging.disable(old_disable)
    require(np.array_equal(_prefix(m4.rng), own), "rng.independent_of_progress_reporting", "the model's generator differs when the run shows a progress bar / logs verbosely")
    _check_schedule(m4.events, case.get("b2", 0), case.get("t2", 1), case.get("n2", 1), "mcmc.with_progress_bar")
    require(out4.is_complete, "mcmc.with_progress_bar.complete", "collection not complete when a progress bar is shown")
    other = case["other"]
    if other != chain:
        m3 = Counting()
        sampling.sample(model=m3, results=ThetaHolder(n_thetas=1), seed=seed, n_chains=n_chains, chain_index=other, n_burnin=0, thin=1)
        s3 = m3.rng.bit_generator.state
        p3 = _prefix(m3.rng)
        require(len(np.intersect1d(p3, own)) == 0, "rng.chains_disjoint", lambda: "chains %d and %d of seed %d share outputs in their first 1000 draws" % (chain, other, seed))
        labels.append("two-chains")
    return {"nontrivial": b > 0 and t > 1 and n_chains > 1, "labels": labels}
