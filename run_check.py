#!/venv/bin/python
"""run_check.py <ID> [--tier quick|thorough] [--replay FILE]

exit 0: property held on everything explored (KNOWN-FINDING lines possible)
exit 1: 'VIOLATION property=<id> replay=<path>' printed
exit 2: harness error (never printed as a violation)
"""
import argparse
import glob
import importlib
import os
import sys

HERE = os.path.dirname(os.path.abspath(__file__))


def main():
    ap = argparse.ArgumentParser()
    ap.add_argument("prop")
    ap.add_argument("--tier", default=os.environ.get("VERIF_TIER", "quick"), choices=["quick", "thorough"])
    ap.add_argument("--replay", default=None)
    ap.add_argument("--seed", type=int, default=None)
    ap.add_argument("--envsweep", default=None, help=argparse.SUPPRESS)  # internal: one shard under another interpreter configuration
    args = ap.parse_args()

    # interpreter configuration: normally PYTHONHASHSEED=0 and no -O; the engine's configuration sweep and replays of failures found
    # there name their own (PYTHONOPTIMIZE / PYTHONHASHSEED), which must be in place before the interpreter starts
    KEYS = ("PYTHONHASHSEED", "PYTHONOPTIMIZE", "PANDAS_COPY_ON_WRITE", "VERIF_LOGGING", "VERIF_WEAK_HASH", "OMP_NUM_THREADS", "VERIF_INTERRUPT_FIRST", "VERIF_FAST_CLOCK")
    want = {"PYTHONHASHSEED": "0"}
    if args.envsweep:
        want = {k: os.environ[k] for k in KEYS if k in os.environ}
    elif args.replay:
        try:
            import json

            with open(args.replay) as f:
                want.update({k: str(v) for k, v in (json.load(f).get("env") or {}).items() if k in KEYS})
        except (OSError, ValueError):
            pass
    if any(os.environ.get(k) != v for k, v in want.items()):
        env = dict(os.environ)
        env.update(want)
        os.execve(sys.executable, [sys.executable] + sys.argv, env)

    sys.path.insert(0, HERE)
    os.chdir(HERE)
    seed = args.seed if args.seed is not None else int(os.environ.get("VERIF_SEED", "1") or 1)
    from vf import tree
    from vf.engine import main_run
    from vf.tree import HarnessError

    try:
        tree.activate()
        try:
            import hypothesis  # noqa
        except ImportError:
            raise HarnessError("hypothesis not importable; run setup.sh")
        matches = glob.glob(os.path.join(HERE, "checks", args.prop.lower() + "_*.py"))
        if len(matches) != 1:
            raise HarnessError("no unique check module for %s" % args.prop)
        modname = "checks." + os.path.basename(matches[0])[:-3]
        mod = importlib.import_module(modname)
        if args.envsweep:
            from vf.engine import envsweep_child

            rc = envsweep_child(mod, args.tier, seed, args.envsweep)
        else:
            rc = main_run(mod, args.tier, seed, replay=args.replay)
    except HarnessError as e:
        print("HARNESS-ERROR property=%s %s" % (args.prop, e), file=sys.stderr)
        sys.exit(2)
    except SystemExit:
        raise
    except BaseException as e:  # a bug in the harness must never look like a violation
        import traceback

        traceback.print_exc()
        print("HARNESS-ERROR property=%s %r" % (args.prop, e), file=sys.stderr)
        sys.exit(2)
    sys.exit(rc)


if __name__ == "__main__":
    main()
