"""C18 - randomised steps are deterministic in their inputs and the given generator/seed."""
import contextlib
import json
import os

import numpy as np
import numpy.random as npr
from hypothesis import strategies as st

from vf import retro
from vf import strategies as S
from vf import tmp
from vf.cli import run_cli, warm
from vf.engine import Violation, require

ID = "C18"
LEVEL = "exploration"
TECHNIQUE = "metamorphic re-execution: every randomised operation is run twice with identical inputs and an identically seeded generator/--seed under two different ambient states of numpy's global generator; outputs compared exactly, global state compared before/after"
RULE = (
    "(training operations also see viabilities 0, 1, 1.05, 1e-12) "
    "for each of the randomised operations (3 plate generators incl. force_include, 6 smoothers, sparse cover, 2 hold-out splits, RandomScorer, DBAL triple sub-sampling, "
    "GaussianDBALScorer, score_chunk, select_next_plate with the k-per-sample policy, sampling.sample with both shipped MCMC models, and the CLIs with --seed: "
    "prepare_retrospective_simulation, train_model, calculate_scores, select_next_plate) a generated input, a seed and two ambient global states (np.random.seed(a) "
    "followed by j unrelated draws); the fixed cases are additionally executed in fresh interpreters started with other PYTHONHASHSEED values and compared across "
    "processes. Non-trivial = the operation actually consumed randomness (a third run with another seed gives a different output). "
    "distinct = distinct (operation, case JSON)."
    ' Training operations: in a third of the cases a drawn set of Cholesky factorisations fails (injected numpy LinAlgError), identically in every compared run.'
    ' Also: training on 70 / 130 / 260 samples with 40 .. 300 conditions; every training is repeated directly with a fresh model.'
    ' The second of the two compared runs is restricted to one CPU and started from another working directory.'
)
ASSUMPTIONS = [
    "operations that raise for the generated parameters are counted and skipped (they must raise in both runs)",
    "equality is exact (bit patterns for floats)",
]

OPS = [
    "gen:PlatePermutation",
    "gen:PlatePermutationForce",
    "gen:SampleSegregating",
    "gen:Pairwise",
    "smooth:MergeMin",
    "smooth:MergeTopBottom",
    "smooth:FixedSize",
    "smooth:OptimalSize",
    "smooth:NPlatePerCellLine",
    "smooth:BatchieEnsemble",
    "cover",
    "holdout:plate_balanced",
    "holdout:random",
    "scorer:Random",
    "dbal:subsampled",
    "scorer:GaussianDBAL",
    "score_chunk",
    "select:policy",
    "sample:SparseDrugCombo",
    "sample:SparseDrugComboInteraction",
    "cli:prepare_retrospective_simulation",
    "cli:train_model",
    "cli:calculate_scores",
    "cli:select_next_plate",
]


def budgets(tier):
    if tier == "quick":
        return {"examples": 160, "max_s": 110, "shrink_s": 25, "shards": 1}
    return {"examples": 1200, "max_s": 900, "shrink_s": 120, "shards": 16}


@st.composite
def _case(draw, op=None):
    op = draw(st.sampled_from(OPS)) if op is None else op
    ssp = op in ("smooth:MergeMin", "smooth:MergeTopBottom", "smooth:NPlatePerCellLine", "smooth:BatchieEnsemble", "select:policy", "cli:select_next_plate")
    if op == "cli:prepare_retrospective_simulation":
        sc = draw(retro.retro_screen(single_sample_plates=False, n_rows=(10, 18), n_plates=(3, 5), obs=st.floats(min_value=0.05, max_value=0.95), allow_same=False, allow_control=False))
    else:
        obs = st.floats(min_value=0.05, max_value=0.95)
        if op.startswith("sample:") or "train_model" in op:
            # viabilities at and beyond the bounds are legal data (fully lethal, no effect, above the control): training must stay a
            # function of data and seed there too, whatever numerical guards such values trip
            obs = st.one_of(obs, obs, st.sampled_from([0.0, 1.0, 1.05, 1e-12]))
        sc = draw(retro.retro_screen(single_sample_plates=ssp or draw(st.booleans()), n_rows=(4, 16), obs=obs, allow_same=False, ensure_unobserved=2, ensure_observed=1))
    c = {
        "op": op,
        "screen": sc,
        "seed": draw(st.integers(0, 2**31 - 1)),
        "ambient": [draw(st.integers(0, 2**31 - 1)), draw(st.integers(0, 2**31 - 1))],
        "ambient_draws": [draw(st.integers(0, 5)), draw(st.integers(0, 5))],
        "params": draw(retro.operator([op.split(":")[1]])) if op.split(":")[0] in ("gen", "smooth") else {},
        "flag": draw(st.booleans()),
        "fraction": draw(st.sampled_from([0.3, 0.5, 0.7])),
        "n_thetas": draw(st.integers(5, 7)),
        "D": draw(st.integers(1, 2)),
        "k": draw(st.integers(1, 2)),
    }
    if op.startswith("sample:") and draw(st.integers(0, 2)) == 0:
        c["chol_fail"] = sorted(set(draw(st.lists(st.integers(0, 40), min_size=1, max_size=4))))
    return c


def strategy(tier):
    return st.one_of(*[_case(op) for op in OPS])


def _pairwise_fixed():
    """layout on which the pairwise generator returns and has single-agent rows to distribute over several generated plates"""
    rows = []
    for s_ in range(2):
        for a, b in (("t0", "t1"), ("t2", "t3"), ("t0", "t3"), ("t1", "t2")):
            rows.append({"s": "s%d" % s_, "p": "u%d" % (len(rows) % 3), "t": [a, b], "d": [1.0, 1.0], "o": 0.5})
        for k_, t in enumerate(("t0", "t1", "t2", "t3", "t0", "t2")):
            rows.append({"s": "s%d" % s_, "p": "u%d" % (k_ % 3), "t": [t, "ctl"] if k_ % 2 else ["ctl", t], "d": [1.0, 0.0] if k_ % 2 else [0.0, 1.0], "o": 0.8})
    return {"arity": 2, "control": "ctl", "rows": rows, "observed": [], "ns": 2, "nt": 8, "ssp": False}


def _big_fixed():
    """two samples x two unobserved plates of five experiments (sub-sampling smoothers / hold-outs have something to choose from)"""
    rows = []
    for s_ in range(2):
        for j in range(2):
            for r in range(5):
                rows.append({"s": "s%d" % s_, "p": "p%d_%d" % (s_, j), "t": ["t%d" % (r % 3), "t%d" % ((r + 1 + j) % 3 + 3)], "d": [1.0, 1.0], "o": 0.2 + 0.1 * r})
        rows.append({"s": "s%d" % s_, "p": "p%d_obs" % s_, "t": ["t0", "ctl"], "d": [1.0, 0.0], "o": 0.6})
    return {"arity": 2, "control": "ctl", "rows": rows, "observed": ["p0_obs", "p1_obs"], "ns": 2, "nt": 12, "ssp": True}


def fixed_cases():
    out = list(_fixed_cases())
    big = _big_fixed()
    for op, params in (
        ("holdout:plate_balanced", {}),
        ("holdout:random", {}),
        ("smooth:FixedSize", {"name": "FixedSize", "plate_size": 3}),
        ("smooth:OptimalSize", {"name": "OptimalSize"}),
        ("smooth:BatchieEnsemble", {"name": "BatchieEnsemble", "min_size": 4, "n_iterations": 1, "k": 1}),
        ("gen:SampleSegregating", {"name": "SampleSegregating", "max_plate_size": 3}),
        ("gen:PlatePermutation", {"name": "PlatePermutation"}),
        ("cover", {}),
    ):
        for seed, frac in ((5, 0.5), (6, 0.3)):
            out.append({"op": op, "screen": big, "seed": seed, "ambient": [9, 10], "ambient_draws": [1, 0], "params": params, "flag": seed == 5, "fraction": frac, "n_thetas": 6, "D": 1, "k": 1})
    for seed in (3, 4):
        for sub, anc in ((1, 0), (2, 0), (1, 2)):
            out.append({"op": "gen:Pairwise", "screen": _pairwise_fixed(), "seed": seed, "ambient": [1, 2], "ambient_draws": [0, 1], "params": {"name": "Pairwise", "subset_size": sub, "anchor_size": anc}, "flag": True, "fraction": 0.5, "n_thetas": 6, "D": 1, "k": 1})
    return out


def sweep_outputs():
    """worker entry (run in a fresh interpreter with its own PYTHONHASHSEED): canonical output of every fixed case"""
    out = []
    for c in fixed_cases():
        try:
            with np.errstate(all="ignore"):
                out.append([c["op"], "ok", json.dumps(run_op(c, c["seed"]), sort_keys=True, default=str)])
        except Exception as e:  # noqa
            out.append([c["op"], "raised", type(e).__name__])
    return out


def exhaustive(tier):
    yield from fixed_cases()
    # the same fixed cases in fresh interpreters with other string-hash seeds (set/dict iteration order must not matter)
    yield {"op": "hashseed-sweep", "hashseeds": [1, 2] if tier == "quick" else [1, 2, 3, 4, 5, 6]}


def _fixed_cases():
    # one fixed, hand-sized case per operation so that every operation is exercised in every run
    rows = []
    for s in range(2):
        for j in range(3):
            for r in range(2):
                rows.append({"s": "s%d" % s, "p": "p%d_%d" % (s, j), "t": ["t0", "t1" if r else "t2"], "d": [1.0, 1.0], "o": 0.3 + 0.1 * r + 0.05 * j})
    for s in range(2):
        for t in ("t0", "t1", "t2"):
            rows.append({"s": "s%d" % s, "p": "p%d_obs" % s, "t": [t, "ctl"], "d": [1.0, 0.0], "o": 0.6})
    for s in range(2):  # observed full combinations (the interaction model trains on these only)
        for a, b in (("t0", "t1"), ("t1", "t2"), ("t2", "t0")):
            rows.append({"s": "s%d" % s, "p": "p%d_obs" % s, "t": [a, b], "d": [1.0, 1.0], "o": 0.4 if a == "t0" else 0.7})
    sc = {"arity": 2, "control": "ctl", "rows": rows, "observed": ["p0_obs", "p1_obs"], "ns": 2, "nt": 6, "ssp": True}
    pp = {"gen:PlatePermutationForce": {"force": [0]}, "gen:SampleSegregating": {"max_plate_size": 2}, "gen:Pairwise": {"subset_size": 1, "anchor_size": 0}, "smooth:MergeMin": {"min_size": 3}, "smooth:MergeTopBottom": {"n_iterations": 1}, "smooth:FixedSize": {"plate_size": 1}, "smooth:NPlatePerCellLine": {"k": 2}, "smooth:BatchieEnsemble": {"min_size": 2, "n_iterations": 1, "k": 1}}
    for variant, (seed, amb, draws, flag, frac) in enumerate([(11, [1, 2], [0, 3], True, 0.5), (2**31 - 5, [7, 7], [0, 1], False, 0.7), (0, [123456, 5], [5, 0], True, 0.3)]):
        for op in OPS:
            p = dict(pp.get(op, {}))
            if op.split(":")[0] in ("gen", "smooth"):
                p["name"] = op.split(":")[1]
            sc_ = sc
            if variant == 2 and (op.startswith("sample:") or "train_model" in op):
                # third variant of the training operations: observed combination viabilities at and beyond the bounds
                edge = iter([1.0, 0.0, 1.05])
                sc_ = dict(sc, rows=[dict(r, o=next(edge, r["o"])) if (r["p"].endswith("_obs") and "ctl" not in r["t"]) else r for r in rows])
            c_ = {"op": op, "screen": sc_, "seed": seed, "ambient": amb, "ambient_draws": draws, "params": p, "flag": flag, "fraction": frac, "n_thetas": 6 + variant % 2, "D": 1 + variant % 2, "k": 1 + variant % 2}
            if variant == 1 and op.startswith("sample:"):
                c_["chol_fail"] = [0, 3, 9, 17, 30]  # training that meets (injected) Cholesky breakdowns
            yield c_
    # training on as many samples (cell lines) and treatments as a real screen has: 70 / 130 / 260 samples, 40 .. 300 conditions
    for op in [o for o in OPS if o.startswith("sample:") or o == "cli:train_model"]:
        for ns_, nt_ in ((70, 40), (130, 300)) + (((260, 90),) if op.startswith("sample:") else ()):
            rows_ = []
            tn_ = lambda k_: S.treat_name(k_)[0]
            td_ = lambda k_: S.treat_name(k_)[1]
            for s_ in range(ns_):
                a_, b_ = (3 * s_) % nt_, (3 * s_ + 1 + s_ % 5) % nt_
                rows_.append({"s": "s%d" % s_, "p": "obs%d" % (s_ % 4), "t": [tn_(a_), tn_(b_)], "d": [td_(a_), td_(b_)], "o": 0.2 + 0.6 * ((s_ * 37) % 100) / 100.0})
                rows_.append({"s": "s%d" % s_, "p": "obs%d" % (s_ % 4), "t": [tn_(a_), "ctl"], "d": [td_(a_), 0.0], "o": 0.7})
                rows_.append({"s": "s%d" % s_, "p": "obs%d" % (s_ % 4), "t": [tn_(b_), "ctl"], "d": [td_(b_), 0.0], "o": 0.6})
                rows_.append({"s": "s%d" % s_, "p": "u%d" % (s_ % 3), "t": [tn_((a_ + 2) % nt_), tn_(b_)], "d": [td_((a_ + 2) % nt_), td_(b_)], "o": 0.5})
            for t_ in range(nt_):  # every condition occurs
                rows_.append({"s": "s%d" % (t_ % ns_), "p": "u%d" % (t_ % 3), "t": [tn_(t_), tn_((t_ + 1) % nt_)], "d": [td_(t_), td_((t_ + 1) % nt_)], "o": 0.5})
            yield {"op": op, "screen": {"arity": 2, "control": "ctl", "rows": rows_, "observed": ["obs0", "obs1", "obs2", "obs3"], "ns": ns_, "nt": nt_, "ssp": False}, "seed": 4000 + ns_, "ambient": [3, 9], "ambient_draws": [1, 2], "params": {}, "flag": True, "fraction": 0.5, "n_thetas": 6, "D": 2, "k": 1}


# ---------------------------------------------------------------- canonical outputs


def canon_screen(s):
    return [retro.row_key(s, i, with_plate=True, with_mask=True) for i in range(s.size)]


def canon_thetas(holder):
    out = []
    for t in holder.thetas:
        d = dict(t.private_parameters_dict())
        out.append({k: (np.asarray(v, dtype=float).tobytes().hex() if not isinstance(v, dict) else sorted(v.items())) for k, v in sorted(d.items())})
    return out


def _thetas_and_dm(case, screen, n):
    from batchie.distance_calculation import ChunkedDistanceMatrix

    r = np.random.default_rng(case["seed"] % 1000 + 17)
    ns, nt = case["screen"]["ns"], case["screen"]["nt"]
    ps = []
    for _ in range(n):
        ps.append({"kind": "additive", "W": r.normal(size=(ns, 2)).tolist(), "W0": r.normal(size=ns).tolist(), "V2": r.normal(size=(nt, 2)).tolist(), "V1": r.normal(size=(nt, 2)).tolist(), "V0": r.normal(size=nt).tolist(), "alpha": 0.1, "precision": 2.0})
    holder = S.build_holder(ps)
    dm = ChunkedDistanceMatrix(size=n)
    for i in range(n):
        for j in range(i):
            dm.add_value(i, j, float(r.uniform(0.1, 1.0)))
    return holder, dm


def _obj(cache, key, make):
    """operator / scorer / policy objects: fresh per call, or shared between calls when a cache is handed in"""
    if cache is None:
        return make()
    if key not in cache:
        cache[key] = make()
    return cache[key]


_SEEDSEQS = {}


@contextlib.contextmanager
def _cholesky_faults(indices):
    """fault injection: the Cholesky factorisations numbered `indices` (counted from the start of this block) fail with numpy's
    'not positive definite' error - the numerical breakdown the sampler anticipates and survives.  Whatever the code does about
    it (skip the update, retry, give up) is part of the operation: with the same data, seed and faults it must do the same thing"""
    if not indices:
        yield
        return
    import scipy.linalg as sl

    todo = set(int(i) for i in indices)
    count = [0]
    orig = [(np.linalg, "cholesky", np.linalg.cholesky), (sl, "cholesky", sl.cholesky), (sl, "cho_factor", sl.cho_factor)]

    def mk(f):
        def faulty(*a, **k):
            i = count[0]
            count[0] += 1
            if i in todo:
                raise np.linalg.LinAlgError("Matrix is not positive definite")
            return f(*a, **k)

        faulty.__name__ = f.__name__
        return faulty

    for m_, n_, f_ in orig:
        setattr(m_, n_, mk(f_))
    try:
        yield
    finally:
        for m_, n_, f_ in orig:
            setattr(m_, n_, f_)


def _gen(seed):
    """an identically seeded generator for every run: built from ONE SeedSequence object per seed value (kept for the duration of a
    case), so that runs which are to be compared receive generators with the same seed material, the same state and the same
    seed-sequence object - as a caller does who keeps `ss = SeedSequence(seed)` and hands out `default_rng(ss)`"""
    ss = _SEEDSEQS.get(seed)
    if ss is None:
        ss = _SEEDSEQS[seed] = np.random.SeedSequence(seed)
    return np.random.default_rng(ss)


def run_op(case, seed, cache=None):
    """Run the operation with a generator / --seed derived from `seed`; returns a comparable canonical output.
    With `cache`, the configuration objects (generator, smoother, scorer, policy) are reused between calls."""
    from batchie import retrospective as R
    from batchie import sampling
    from batchie.core import ThetaHolder
    from batchie.data import ExperimentSpace, Screen
    from batchie.scoring import gaussian_dbal as gd
    from batchie.scoring.main import ChunkedScoresHolder, score_chunk, select_next_plate
    from batchie.scoring.rand import RandomScorer

    op = case["op"]
    sc = case["screen"]
    tm, sm = S.space_mappings(sc["ns"], sc["nt"])
    screen = S.build_screen(sc, treatment_mapping=tm, sample_mapping=sm)
    kind = op.split(":")[0]
    paths = []
    try:
        if kind in ("gen", "smooth"):
            opobj = _obj(cache, "op", lambda: retro.build_operator(case["params"], [str(x) for x in screen.plate_names]))
            f_ = opobj.generate_plates if kind == "gen" else opobj.smooth_plates
            return canon_screen(f_(screen, _gen(seed)))
        if op == "cover":
            full = S.build_screen(dict(sc, observed=sorted({r["p"] for r in sc["rows"]})), treatment_mapping=tm, sample_mapping=sm)
            cov = _obj(cache, "cover", lambda: R.SparseCoverPlateGenerator(reveal_single_treatment_experiments=case["flag"]))
            return canon_screen(cov.generate_and_unmask_initial_plate(full, _gen(seed)))
        if kind == "holdout":
            f = R.create_plate_balanced_holdout_set_among_masked_plates if op.endswith("plate_balanced") else R.create_random_holdout
            a, b = f(screen, case["fraction"], _gen(seed))
            return [canon_screen(a), canon_screen(b)]
        n = case["n_thetas"]
        if op in ("scorer:Random", "dbal:subsampled", "scorer:GaussianDBAL", "score_chunk", "select:policy"):
            holder, dm = _thetas_and_dm(case, screen, n)
            plates = {int(p.plate_id): p for p in screen.plates if not bool(np.all(p.observation_mask))}
            if op == "scorer:Random":
                return sorted((int(k), float(v)) for k, v in _obj(cache, "rand", RandomScorer).score(plates=plates, distance_matrix=dm, samples=holder, rng=_gen(seed), progress_bar=False).items())
            if op == "dbal:subsampled":
                r = np.random.default_rng(case["seed"] % 997)
                preds = r.normal(size=(3, n, 4))
                var = np.ones((3, n, 4))
                return [float(x).hex() for x in gd.dbal_fast_gauss_scoring_vectorized(preds, var, dm.to_dense(), _gen(seed), max_combos=5)]
            if op == "scorer:GaussianDBAL":
                return sorted((int(k), float(v).hex()) for k, v in _obj(cache, "dbal", lambda: gd.GaussianDBALScorer(max_chunk=2, max_triples=4)).score(plates=plates, distance_matrix=dm, samples=holder, rng=_gen(seed), progress_bar=False).items())
            if op == "score_chunk":
                out = []
                for c in range(2):
                    h = score_chunk(scorer=_obj(cache, "dbal_chunk", lambda: gd.GaussianDBALScorer(max_triples=4)), thetas=holder, screen=screen, distance_matrix=dm, rng=_gen(seed + c), n_chunks=2, chunk_index=c)
                    out.append(sorted((int(p), float(s).hex()) for p, s in zip(h.plate_ids[: h.current_index], h.scores[: h.current_index])))
                return out
            from batchie.policies.k_per_sample import KPerSamplePlatePolicy

            sh = ChunkedScoresHolder(len(plates))
            for pid in sorted(plates):
                sh.add_score(pid, float((pid * 7919) % 13))
            p = select_next_plate(scores=sh, screen=screen, policy=_obj(cache, "policy", lambda: KPerSamplePlatePolicy(case["k"])), batch_plate_ids=[], rng=_gen(seed))
            return None if p is None else int(p.plate_id)
        if kind == "sample":
            from batchie.models.sparse_combo import SparseDrugCombo
            from batchie.models.sparse_combo_interaction import SparseDrugComboInteraction

            cls = SparseDrugCombo if op.endswith("SparseDrugCombo") else SparseDrugComboInteraction
            model = cls(experiment_space=ExperimentSpace.from_screen(screen), n_embedding_dimensions=case["D"])
            observed = screen.subset_observed()
            if observed is not None:  # like train_model: no observed experiments -> sample from the prior
                model.add_observations(observed)
            with _cholesky_faults(case.get("chol_fail")):
                h = sampling.sample(model=model, results=ThetaHolder(n_thetas=3), seed=seed, n_chains=2, chain_index=1, n_burnin=1, thin=1)
            if True:
                rep_ = cls(experiment_space=ExperimentSpace.from_screen(screen), n_embedding_dimensions=case["D"])
                if observed is not None:
                    rep_.add_observations(observed)
                with _cholesky_faults(case.get("chol_fail")):
                    hr_ = sampling.sample(model=rep_, results=ThetaHolder(n_thetas=3), seed=seed, n_chains=2, chain_index=1, n_burnin=1, thin=1)
                require(canon_thetas(hr_) == canon_thetas(h), op + (".repeatable_when_factorisations_fail" if case.get("chol_fail") else ".repeatable"), lambda: "two trainings of fresh models with identical data and seed%s give different posterior samples" % ((" and the same (injected) Cholesky failures %r" % (case["chol_fail"],)) if case.get("chol_fail") else ""))
            # two more models of the same class, alive together and stepped in turn, each with its own seeded generator: the first one's
            # states are those of a model stepped alone with that generator (another live model is not an input)
            def fresh_model(rng_seed):
                m_ = cls(experiment_space=ExperimentSpace.from_screen(screen), n_embedding_dimensions=case["D"])
                if observed is not None:
                    m_.add_observations(observed)
                m_.set_rng(np.random.default_rng(rng_seed))
                return m_

            def state(m_):
                t_ = m_.get_model_state()
                return {k_: (np.asarray(v_, dtype=float).tobytes().hex() if not isinstance(v_, dict) else sorted(v_.items())) for k_, v_ in sorted(dict(t_.private_parameters_dict()).items())}

            with np.errstate(all="ignore"):
                a_, b_ = fresh_model(seed % 1000 + 5), fresh_model(seed % 1000 + 6)
                third_ = cls(experiment_space=ExperimentSpace.from_screen(screen), n_embedding_dimensions=case["D"])  # noqa: F841  (constructed with defaults, never used)
                for _ in range(2):
                    a_.step()
                    b_.step()
                solo_ = fresh_model(seed % 1000 + 5)
                for _ in range(2):
                    solo_.step()
            # ... and the same training repeated after a LARGER model of the class was trained in this process gives the same samples
            with np.errstate(all="ignore"):
                big_ = cls(experiment_space=ExperimentSpace.from_screen(screen), n_embedding_dimensions=case["D"] + 4)
                if observed is not None:
                    big_.add_observations(observed)
                sampling.sample(model=big_, results=ThetaHolder(n_thetas=1), seed=seed + 1, n_chains=1, chain_index=0, n_burnin=0, thin=1)
                again_ = cls(experiment_space=ExperimentSpace.from_screen(screen), n_embedding_dimensions=case["D"])
                if observed is not None:
                    again_.add_observations(observed)
                with _cholesky_faults(case.get("chol_fail")):
                    h2_ = sampling.sample(model=again_, results=ThetaHolder(n_thetas=3), seed=seed, n_chains=2, chain_index=1, n_burnin=1, thin=1)
            require(canon_thetas(h2_) == canon_thetas(h), op + ".independent_of_earlier_trainings", "the same training (data, seed, chain) gives other posterior samples after a model with more embedding dimensions was trained in the same process")
            require(state(a_) == state(solo_), op + ".independent_of_other_live_models", "a model stepped in turn with another live model of its class (each with its own seeded generator) reaches another state than the same model stepped alone")
            return canon_thetas(h)
        # ---- command line steps with --seed
        warm()
        sfile = tmp.fresh("screen.h5")
        paths.append(sfile)
        if op == "cli:prepare_retrospective_simulation":
            full = S.build_screen(dict(sc, observed=sorted({r["p"] for r in sc["rows"]})), treatment_mapping=tm, sample_mapping=sm)
            full.save_h5(sfile)
            a, b = tmp.fresh("train.h5"), tmp.fresh("test.h5")
            paths += [a, b]
            run_cli("prepare_retrospective_simulation", ["--data", sfile, "--training-output", a, "--test-output", b, "--plate-generator", "PlatePermutationPlateGenerator", "--plate-smoother", "OptimalSizeSmoother", "--holdout-fraction", case["fraction"], "--seed", seed])
            return [canon_screen(Screen.load_h5(a)), canon_screen(Screen.load_h5(b))]
        screen.save_h5(sfile)
        if op == "cli:train_model":
            o = tmp.fresh("thetas.h5")
            paths.append(o)
            run_cli("train_model", ["--data", sfile, "--model", "SparseDrugCombo", "--model-param", "n_embedding_dimensions=%d" % case["D"], "--n-samples", 3, "--n-burnin", 1, "--thin", 1, "--n-chains", 2, "--chain-index", 0, "--seed", seed, "--output", o])
            return canon_thetas(ThetaHolder.load_h5(o))
        holder, dm = _thetas_and_dm(case, screen, n)
        if op == "cli:calculate_scores":
            tfile, dfile, o = tmp.fresh("thetas.h5"), tmp.fresh("dist.h5"), tmp.fresh("scores.h5")
            paths += [tfile, dfile, o]
            holder.save_h5(tfile)
            dm.save(dfile)
            run_cli("calculate_scores", ["--data", sfile, "--thetas", tfile, "--distance-matrix", dfile, "--scorer", "RandomScorer" if case["flag"] else "GaussianDBALScorer", "--seed", seed, "--output", o])
            h = ChunkedScoresHolder.load_h5(o)
            return sorted((int(p), float(s).hex()) for p, s in zip(h.plate_ids[: h.current_index], h.scores[: h.current_index]))
        if op == "cli:select_next_plate":
            plates = {int(p.plate_id): p for p in screen.plates if not bool(np.all(p.observation_mask))}
            sh = ChunkedScoresHolder(len(plates))
            for pid in sorted(plates):
                sh.add_score(pid, float((pid * 7919) % 13))
            f, o = tmp.fresh("scores.h5"), tmp.fresh("selected")
            paths += [f, o]
            sh.save_h5(f)
            run_cli("select_next_plate", ["--data", sfile, "--scores", f, "--policy", "KPerSamplePlatePolicy", "--policy-param", "k=%d" % case["k"], "--seed", seed, "--output", o])
            return open(o).read().strip()
        raise Violation("case.op", "unknown operation %r" % op)
    finally:
        tmp.cleanup(*paths)


def _ambient(seed, draws):
    npr.seed(seed % (2**32))
    for _ in range(draws):
        npr.random()
    return npr.get_state()


def _same_state(a, b):
    return a[0] == b[0] and np.array_equal(a[1], b[1]) and a[2:] == b[2:]


def _hashseed_sweep(case):
    import os
    import subprocess
    import sys

    from vf.engine import ROOT
    from vf.tree import REPO, HarnessError

    code = "import sys, json; sys.path.insert(0, %r); from vf import tree; tree.activate(); from checks import c18_determinism as m; print('SWEEP' + json.dumps(m.sweep_outputs()))" % ROOT
    procs = []
    for hs in case["hashseeds"]:
        env = dict(os.environ, PYTHONHASHSEED=str(hs), BATCHIE_REPO=REPO, PYTHONDONTWRITEBYTECODE="1")
        procs.append((hs, subprocess.Popen([sys.executable, "-c", code], env=env, stdout=subprocess.PIPE, stderr=subprocess.PIPE, text=True)))
    here = sweep_outputs()  # this interpreter runs with PYTHONHASHSEED=0
    n_ok = 0
    for hs, p in procs:
        so, se = p.communicate(timeout=900)
        line = [l for l in so.splitlines() if l.startswith("SWEEP")]
        if p.returncode != 0 or not line:
            raise HarnessError("hash-seed worker failed (rc=%r): %s" % (p.returncode, se[-500:]))
        other = json.loads(line[0][5:])
        require(len(other) == len(here), "hashseed.worker", "worker returned another number of outputs")
        for (op, st_a, out_a), (op_b, st_b, out_b) in zip(here, other):
            require(st_a == st_b and out_a == out_b, op + ".depends_on_hash_seed", lambda: "%s: identical inputs and seed give another result in an interpreter started with PYTHONHASHSEED=%s than with PYTHONHASHSEED=0: %s vs %s" % (op, hs, out_a[:200], out_b[:200]))
            n_ok += 1
    return {"nontrivial": True, "labels": ["hashseed-sweep"], "counts": {"cross_process_comparisons": n_ok}, "key": ["sweep", case["hashseeds"]]}


def check_case(case):
    _SEEDSEQS.clear()
    return _check_case(case)


def _check_case(case):
    op = case["op"]
    if op == "hashseed-sweep":
        return _hashseed_sweep(case)
    saved = npr.get_state()
    try:
        outs = []
        for i in (0, 1):
            st0 = _ambient(case["ambient"][i], case["ambient_draws"][i])
            # the second run also gets another ambient process state that is no input of the operation: it may use one CPU only (a
            # scheduler's allowance, another machine) and is started from another working directory
            cpus0, cwd0 = None, os.getcwd()
            if i == 1:
                try:
                    cpus0 = os.sched_getaffinity(0)
                    os.sched_setaffinity(0, {min(cpus0)})
                except (AttributeError, OSError):
                    cpus0 = None
                os.chdir(tmp.tmpdir())
            try:
                with np.errstate(all="ignore"):
                    out = ("ok", run_op(case, case["seed"]))
            except Violation:
                raise
            except Exception as e:
                out = ("raised", type(e).__name__)
            finally:
                os.chdir(cwd0)
                if cpus0 is not None:
                    os.sched_setaffinity(0, cpus0)
            st1 = npr.get_state()
            require(_same_state(st0, st1), op + ".perturbs_global_state", lambda: "%s changed the state of numpy's global generator (position %r -> %r)" % (op, st0[2], st1[2]))
            outs.append(out)
        if outs[0][0] == "raised" or outs[1][0] == "raised":
            require(outs[0] == outs[1], op + ".raises_consistently", lambda: "%s: %r under one ambient state, %r under the other" % (op, outs[0], outs[1]))
            return {"nontrivial": False, "labels": [op, "raised:%s:%s" % (op, outs[0][1])]}
        require(json.dumps(outs[0][1], sort_keys=True, default=str) == json.dumps(outs[1][1], sort_keys=True, default=str), op + ".depends_on_global_state", lambda: "%s: two runs with identical inputs and an identically seeded generator (seed %d; the second run restricted to one CPU, from another working directory) differ when numpy's global generator is in another state: %s vs %s" % (op, case["seed"], _short(outs[0][1]), _short(outs[1][1])))
        # the configuration objects (generator / smoother / scorer / policy) are reusable: seed, other seed, seed again on ONE object
        if op.split(":")[0] in ("gen", "smooth", "cover", "scorer", "score_chunk", "select"):
            shared = {}
            seq = []
            # ... and on ANOTHER screen in between (a different layout with other plate sizes)
            other_case = dict(case, screen=_big_fixed() if case["screen"] != _big_fixed() else _pairwise_fixed())
            try:
                with np.errstate(all="ignore"):
                    fresh_other = json.dumps(run_op(other_case, case["seed"]), sort_keys=True, default=str)
            except Exception:
                fresh_other = None
            for sd, cs in ((case["seed"], case), (case["seed"] + 1, case), (case["seed"], other_case), (case["seed"], case)):
                try:
                    with np.errstate(all="ignore"):
                        seq.append(json.dumps(run_op(cs, sd, cache=shared), sort_keys=True, default=str))
                except Exception:
                    seq.append(None)
            fresh = json.dumps(outs[0][1], sort_keys=True, default=str)
            require(seq[0] == fresh and seq[3] == fresh, op + ".depends_on_call_history", lambda: "%s: on a reused %s object the result for seed %d is %s the first time and %s after calls with another seed / another screen; a fresh object gives %s" % (op, op.split(":")[0], case["seed"], str(seq[0])[:160], str(seq[3])[:160], fresh[:160]))
            # (the force-include generator is configured with plate names of one particular screen: no cross-screen comparison)
            require(op == "gen:PlatePermutationForce" or seq[2] == fresh_other, op + ".depends_on_call_history", lambda: "%s: a %s object that was used on one screen before gives %s on another screen; a fresh object gives %s" % (op, op.split(":")[0], str(seq[2])[:200], str(fresh_other)[:200]))
        # third run, other seed: did the operation consume randomness at all?
        _ambient(case["ambient"][0], case["ambient_draws"][0])
        try:
            with np.errstate(all="ignore"):
                other = run_op(case, case["seed"] + 1)
            consumed = json.dumps(other, sort_keys=True, default=str) != json.dumps(outs[0][1], sort_keys=True, default=str)
        except Exception:
            consumed = False
    finally:
        npr.set_state(saved)
    return {"nontrivial": consumed, "labels": [op] + (["consumed-randomness"] if consumed else ["output-independent-of-seed"]), "key": [op, case]}


def _short(x):
    s = json.dumps(x, sort_keys=True, default=str)
    return s if len(s) < 240 else s[:240] + "..."
