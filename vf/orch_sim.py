"""Fault-injection harness for nextflow/scripts/batchie.py (C19).

The script is loaded by path; the names `subprocess`, `os`, `shutil` in ITS namespace are replaced by
 * Pipeline  - an in-process simulator of the nextflow workflows' observable contract (which files appear under
               --outdir/<name>/, in an order consistent with the process DAG, each atomically),
 * OsProxy   - os with makedirs creating one path component at a time,
 * ShProxy   - shutil with rmtree removing one entry at a time,
and every filesystem mutation is bracketed by numbered injection points (Run.tick).  A crash is a BaseException
raised at the chosen tick: the process dies there, files already written stay.
"""
import hashlib
import json
import os
import shutil
import subprocess as real_subprocess


NON_ESSENTIAL = {"model_evaluation.h5"}


class Crash(BaseException):
    pass


class PipelineFailure(real_subprocess.CalledProcessError):
    pass


def sha(*parts):
    h = hashlib.sha1()
    for p in parts:
        h.update(json.dumps(p, sort_keys=True).encode())
    return h.hexdigest()[:12]


class Run:
    def __init__(self, root, cfg, crashes, style="kill"):
        self.root = root
        self.cfg = cfg
        self.crashes = set(crashes)
        # how the interruption arrives: "kill" - the process is gone at the tick (no handler of the script runs: every later
        # effect through the proxies dies too); "interrupt" - KeyboardInterrupt is raised at the tick (Ctrl-C: the script's own
        # handlers / finally blocks run, then the process ends); "fail" - inside a pipeline run the launched command fails
        # (CalledProcessError out of check_call), elsewhere like "interrupt"
        self.style = style
        self.dead = False
        self.interrupted = False
        self.pipeline_calls = 0
        self.ticks = 0
        self.log = []  # invocation records (dicts); 'completed' set when the pipeline run returned
        self.completed = []  # keys in completion order
        self.events = []  # notable events for diagnostics
        self.violations = []  # (sub_check, message) detected on the fly (deleting a completed step, ...)
        self.crash_sites = []
        self.outdir = os.path.join(root, "out")
        self.input_screen = os.path.join(root, "input", "screen.h5")
        self.where = "script"

    def alive(self):
        if self.dead:
            raise Crash("process is gone")

    def inside(self, path, what):
        """every effect of the script must stay under the scenario's scratch root (the --outdir given to it lies there); anything else
        is recorded and refused, so that a script that loses track of its output directory cannot write into the tree under test"""
        p = os.path.abspath(path)
        if p == self.root or p.startswith(self.root + os.sep):
            return True
        self.violations.append(("effect_outside_output_dir", "%s %s, outside the output directory %s it was given" % (what, p, self.outdir)))
        return False

    def tick(self, what):
        self.alive()
        i = self.ticks
        self.ticks += 1
        if i in self.crashes:
            self.crash_sites.append((i, what))
            if self.style == "kill":
                self.dead = True
                raise Crash("%d:%s" % (i, what))
            self.interrupted = True
            if self.style in ("fail", "signal") and what.startswith(("publish:", "work:")):
                # the launched pipeline command ends with an error status - or (style "signal") is killed by a signal (OOM killer,
                # pre-emption), which subprocess reports as a negative return code
                raise PipelineFailure(1 if self.style == "fail" else -9, "nextflow (injected failure at %d:%s)" % (i, what))
            raise KeyboardInterrupt("%d:%s" % (i, what))

    def key_of(self, path):
        rel = os.path.relpath(path, self.outdir).split(os.sep)
        try:
            if len(rel) >= 2 and rel[0].startswith("iter_") and rel[1].startswith("plate_"):
                return (int(rel[0].split("_")[1]), int(rel[1].split("_")[1]))
        except ValueError:
            pass
        return None


class OsProxy:
    def __init__(self, run):
        self._run = run
        self.path = os.path

    def __getattr__(self, name):
        self._run.alive()
        return getattr(os, name)

    def makedirs(self, path, exist_ok=False):
        self._run.alive()
        path = os.path.abspath(path)
        if not self._run.inside(path, "the script creates the directory"):
            raise PermissionError(path)
        missing = []
        p = path
        while not os.path.isdir(p):
            missing.append(p)
            p = os.path.dirname(p)
        if not missing and not exist_ok:
            raise FileExistsError(path)
        for d in reversed(missing):
            self._run.tick("mkdir:before:" + os.path.relpath(d, self._run.root))
            os.mkdir(d)
            self._run.tick("mkdir:after:" + os.path.relpath(d, self._run.root))


class ShProxy:
    def __init__(self, run):
        self._run = run

    def __getattr__(self, name):
        self._run.alive()
        return getattr(shutil, name)

    def rmtree(self, path, ignore_errors=False):
        run = self._run
        run.alive()
        path = os.path.abspath(path)
        if not run.inside(path, "the script removes"):
            raise PermissionError(path)
        if not os.path.exists(path):
            if ignore_errors:
                return
            raise FileNotFoundError(path)
        key = run.key_of(path)
        rel = os.path.relpath(path, run.outdir).split(os.sep)
        if key is not None and len(rel) == 2 and key in run.completed:
            run.violations.append(("completed_step_deleted", "the script deletes the directory of the completed step iter_%d/plate_%d" % key))
        elif key is None and rel[0].startswith("iter_") and any(k[0] == int(rel[0].split("_")[1]) for k in run.completed if rel[0].split("_")[1].isdigit()):
            run.violations.append(("completed_step_deleted", "the script deletes %s which holds completed steps" % os.sep.join(rel)))
        for dirpath, dirnames, filenames in os.walk(path, topdown=False):
            for f in sorted(filenames):
                run.tick("rm:before:" + os.path.relpath(os.path.join(dirpath, f), run.root))
                os.remove(os.path.join(dirpath, f))
            run.tick("rmdir:before:" + os.path.relpath(dirpath, run.root))
            os.rmdir(dirpath)
            run.tick("rmdir:after:" + os.path.relpath(dirpath, run.root))


def read(path):
    with open(path) as f:
        return json.load(f)


class Pipeline:
    """Stands for `subprocess` inside the script: check_call runs the simulated workflow."""

    CalledProcessError = real_subprocess.CalledProcessError

    def __init__(self, run):
        self.state = run

    # -- helpers
    def _publish(self, outdir, name, fname, content, on_written=None):
        run = self.state
        d = os.path.join(outdir, name)
        if not os.path.isdir(d):
            run.tick("publish:mkdir:before:" + os.path.relpath(d, run.root))
            os.makedirs(d, exist_ok=True)
        p = os.path.join(d, fname)
        work = getattr(self, "_work", None)
        if work:
            # like the workflow engine, every task first writes its output in its own task directory under the work directory
            # (same file name, same relative prefix) and publishes it afterwards
            h = sha(name, fname)
            tdir = os.path.join(work, h[:2], h[2:], name)
            run.tick("work:task:before:" + fname)
            os.makedirs(tdir, exist_ok=True)
            with open(os.path.join(tdir, fname), "w") as f:
                if fname == "selected_plate":
                    f.write(str(content))
                else:
                    json.dump(content, f, sort_keys=True)
        run.tick("publish:before:" + os.path.relpath(p, run.root))
        tmp = p + ".part"
        with open(tmp, "w") as f:
            if fname == "selected_plate":
                f.write(str(content))  # plain text, like `select_next_plate --output`
            else:
                json.dump(content, f, sort_keys=True)
        os.replace(tmp, p)  # atomic publication
        if on_written is not None:
            on_written()
        run.tick("publish:after:" + os.path.relpath(p, run.root))

    @staticmethod
    def _parse(cmd):
        args = list(cmd)
        opts = {}
        i = 0
        while i < len(args):
            a = args[i]
            if a.startswith("--excludes="):
                opts["excludes"] = a.split("=", 1)[1]
                i += 1
            elif a.startswith("--") or a == "-work-dir":
                if i + 1 < len(args):
                    opts[a.lstrip("-")] = args[i + 1]
                    i += 2
                else:
                    opts[a.lstrip("-")] = None
                    i += 1
            else:
                i += 1
        return opts

    def _glob_contents(self, pattern):
        import glob

        files = sorted(glob.glob(pattern))
        if not files:
            raise PipelineFailure(1, "nextflow: no file matches %s" % pattern)
        return sorted(json.dumps(read(f), sort_keys=True) for f in files)

    def _need(self, path):
        if path is None or not os.path.isfile(path):
            raise PipelineFailure(1, "nextflow: input file missing: %r" % (path,))
        return read(path)

    # other ways a script may launch the same command
    def call(self, cmd, *a, **k):
        try:
            return self.check_call(cmd, cwd=k.get("cwd"))
        except PipelineFailure as e:
            return e.returncode

    def check_output(self, cmd, *a, **k):
        self.check_call(cmd, cwd=k.get("cwd"))
        return b""

    def run_cmd(self, cmd, *a, **k):
        class R:
            returncode = 0
            stdout = b""
            stderr = b""

            def check_returncode(self):
                return None

        try:
            self.check_call(cmd, cwd=k.get("cwd"))
        except PipelineFailure:
            if k.get("check"):
                raise
            R.returncode = 1
        return R()

    def __getattr__(self, name):
        if name == "run":
            return self.run_cmd
        return getattr(real_subprocess, name)

    def check_call(self, cmd, cwd=None, **_kw):
        run = self.state
        run.alive()
        run.pipeline_calls += 1
        if run.pipeline_calls > 400:
            raise RuntimeError("harness: more than 400 pipeline runs in one scenario")
        o = self._parse(cmd)
        mode = o.get("mode")
        outdir = os.path.abspath(os.path.join(cwd or os.getcwd(), o["outdir"]))
        if not run.inside(outdir, "the script launches a pipeline run writing to"):
            raise PipelineFailure(1, "nextflow: refused (output outside the scenario)")
        if o.get("work-dir") and not run.inside(os.path.join(cwd or os.getcwd(), o["work-dir"]), "the script launches a pipeline run with work directory"):
            raise PipelineFailure(1, "nextflow: refused (work directory outside the scenario)")
        name = o.get("name") or "batchie"
        n_chains = int(o.get("n_chains", 1))
        n_chunks = int(o.get("n_chunks", 1))
        key = run.key_of(outdir)
        rec = {"key": key, "mode": mode, "outdir": os.path.relpath(outdir, run.outdir), "name": name, "n_chains": n_chains, "n_chunks": n_chunks, "completed": False, "selected": None}
        run.log.append(rec)
        salt = str(run.cfg.get("order_salt", ""))
        work = o.get("work-dir")
        tasks = []  # (fname, deps, maker)
        state = {}

        def select(screen, thetas_c, dist_c, excludes):
            cand = sorted(p for p, st in screen["plates"].items() if st == "u" and p not in set(excludes))
            if not cand:
                return "-1"
            h = sha(thetas_c, dist_c)
            return min(cand, key=lambda p: sha(h, p))

        def reveal(screen, plate):
            s = {"plates": dict(screen["plates"]), "lineage": sha(screen, "reveal", plate)}
            if plate in s["plates"]:
                s["plates"][plate] = "o"
            return s

        def meta(screen):
            n_u = sum(1 for v in screen["plates"].values() if v == "u")
            return {"n_unobserved_plates": n_u, "n_observed_plates": len(screen["plates"]) - n_u, "n_plates": len(screen["plates"]), "of": sha(screen)}

        if mode in ("retrospective", "prospective"):
            if mode == "retrospective" and str(o.get("initialize")).lower() == "true":
                src = self._need(o.get("screen"))
                rec["screen"] = json.dumps(src, sort_keys=True)
                plates = sorted(src["plates"])
                first = min(plates, key=lambda p: sha(src, p))
                train = {"plates": {p: ("o" if p == first else "u") for p in plates}, "lineage": sha(src, "prepare")}
                test = {"test_of": sha(src)}
                state["train"] = train
                tasks.append(("training.screen.h5", [], lambda: train))
                tasks.append(("test.screen.h5", [], lambda: test))
                base_deps = ["training.screen.h5", "test.screen.h5"]
            elif mode == "retrospective":
                train = self._need(o.get("training_screen"))
                test = self._need(o.get("test_screen"))
                rec["training_screen"] = json.dumps(train, sort_keys=True)
                rec["test_screen"] = json.dumps(test, sort_keys=True)
                state["train"] = train
                base_deps = []
            else:
                train = self._need(o.get("screen"))
                rec["screen"] = json.dumps(train, sort_keys=True)
                state["train"] = train
                base_deps = []
            thetas = ["thetas_%d.h5" % i for i in range(n_chains)]
            for i, t in enumerate(thetas):
                tasks.append((t, list(base_deps), (lambda i=i: {"theta": sha(state["train"], i, n_chains)})))
            tasks.append(("model_evaluation.h5", list(thetas), lambda: {"eval": sha(state["train"], n_chains)}))
            dists = ["distance_matrix_chunk_%d.h5" % j for j in range(n_chunks)]
            for j, d in enumerate(dists):
                tasks.append((d, list(thetas), (lambda j=j: {"dist": sha(state["train"], n_chains, j, n_chunks)})))
            scores = ["score_chunk_%d.h5" % j for j in range(n_chunks)]
            for j, s in enumerate(scores):
                tasks.append((s, list(dists), (lambda j=j: {"score": sha(state["train"], n_chains, j, n_chunks, [])})))

            def mk_sel():
                th = sorted(json.dumps({"theta": sha(state["train"], i, n_chains)}, sort_keys=True) for i in range(n_chains))
                di = sorted(json.dumps({"dist": sha(state["train"], n_chains, j, n_chunks)}, sort_keys=True) for j in range(n_chunks))
                state["sel"] = select(state["train"], th, di, [])
                rec["selected"] = state["sel"]
                return state["sel"]

            tasks.append(("selected_plate", list(scores), mk_sel))
            if mode == "retrospective":
                def adv1():
                    out = reveal(state["train"], state["sel"])
                    rec["output_screen"] = json.dumps(out, sort_keys=True)
                    return out

                tasks.append(("advanced_screen.h5", ["selected_plate"], adv1))
                tasks.append(("screen_metadata.json", ["advanced_screen.h5"], lambda: meta(reveal(state["train"], state["sel"]))))
            else:
                # prospective workflow: metadata is extracted from the INPUT screen, no dependency on the selection
                tasks.append(("screen_metadata.json", [], lambda: meta(state["train"])))
        elif mode == "next_plate":
            screen = self._need(o.get("screen"))
            rec["screen"] = json.dumps(screen, sort_keys=True)
            th = self._glob_contents(o.get("thetas"))
            di = self._glob_contents(o.get("distance_matrix"))
            excludes = sorted(x for x in (o.get("excludes") or "").split(",") if x != "")
            rec["thetas"] = th
            rec["dist"] = di
            rec["excludes"] = excludes
            do_reveal = str(o.get("reveal")).lower() == "true"
            scores = ["score_chunk_%d.h5" % j for j in range(n_chunks)]
            for j, s in enumerate(scores):
                tasks.append((s, [], (lambda j=j: {"score": sha(screen, th, di, excludes, j, n_chunks)})))

            def mk_sel2():
                state["sel"] = select(screen, th, di, excludes)
                rec["selected"] = state["sel"]
                return state["sel"]

            tasks.append(("selected_plate", list(scores), mk_sel2))
            if do_reveal:
                def adv2():
                    out = reveal(screen, state["sel"])
                    rec["output_screen"] = json.dumps(out, sort_keys=True)
                    return out

                tasks.append(("advanced_screen.h5", ["selected_plate"], adv2))
                tasks.append(("screen_metadata.json", ["advanced_screen.h5"], lambda: meta(reveal(screen, state["sel"]))))
            else:
                tasks.append(("screen_metadata.json", [], lambda: meta(screen)))
        else:
            raise PipelineFailure(1, "nextflow: unknown mode %r" % mode)

        # work directory appears first (nextflow creates it at start-up)
        self._work = work
        if work:
            if not os.path.isdir(work):
                run.tick("work:mkdir:before")
                os.makedirs(work, exist_ok=True)
            run.tick("work:file:before")
            with open(os.path.join(work, "cache"), "w") as f:
                f.write("x")

        # publish in a linear extension of the DAG chosen by the case's order salt
        done = set()
        pending = list(tasks)
        force = run.cfg.get("metadata_position")  # None | "first" | "last"
        while pending:
            ready = [t for t in pending if all(d in done for d in t[1])]

            def prio(t):
                if t[0] == "screen_metadata.json" and force == "first":
                    return (0, "")
                if t[0] == "screen_metadata.json" and force == "last":
                    return (2, "")
                return (1, sha(salt, t[0]))

            t = min(ready, key=prio)
            if force == "last" and t[0] == "screen_metadata.json" and len(ready) > 1:
                t = min([x for x in ready if x[0] != "screen_metadata.json"], key=prio)
            pending.remove(t)
            content = t[2]()

            def finished():
                # the step is complete the moment its last file is visible
                rec["completed"] = True
                if key is not None:
                    if key in run.completed:
                        run.violations.append(("step_executed_twice", "step iter_%d/plate_%d ran to completion twice" % key))
                    run.completed.append(key)

            # model_evaluation.h5 is a side branch nothing downstream (nor the script) ever reads: the step counts as
            # complete once every other file is visible
            essential_left = [x for x in pending if x[0] not in NON_ESSENTIAL]
            last_essential = t[0] not in NON_ESSENTIAL and not essential_left
            self._publish(outdir, name, t[0], content, on_written=finished if last_essential else None)
            done.add(t[0])
        return 0


def snapshot_tree(outdir):
    out = {}
    for dirpath, dirnames, filenames in os.walk(outdir):
        rel = os.path.relpath(dirpath, outdir).split(os.sep)
        if "work" in rel:
            continue
        for f in filenames:
            if f in NON_ESSENTIAL:
                continue
            p = os.path.join(dirpath, f)
            with open(p) as fh:
                out[os.path.relpath(p, outdir)] = fh.read()
        if not filenames and not dirnames:
            out[os.path.relpath(dirpath, outdir) + os.sep] = "<empty dir>"
    return out
