"""C20 - evaluation metrics and synergy values equal their definitions."""
import itertools
import math

import numpy as np
from hypothesis import strategies as st
from scipy.special import expit

from vf import strategies as S
from vf import tmp
from vf.engine import Violation, require

ID = "C20"
LEVEL = "exploration"
TECHNIQUE = "Hypothesis-generated prediction matrices / id arrays / posterior samples compared with direct loop-based recomputations of every metric"
RULE = (
    "prediction matrices (1..12 experiments x 1..9 samples) of finite floats with chain labellings of unequal chain lengths or one chain (labels 0-based, 1-based, with gaps or negative; columns grouped by chain or interleaved), unicode sample names; evaluations of production size (200..2049 experiments x 30..300 samples, fixed 700x300, 1025x64, 65537x1, 3x65537; thorough also 4100x257, 70001x16 and two matrices of more than 2**24 entries: 300007x64, 5592410x3) against exactly summed definitions; "
    "id arrays of arity 2 and 3 with repeated single-agent measurements, control in any column and missing single-agent measurements; synergy on arity 2 with "
    ">=1 non-control per row, strict on/off; similarity matrix for 2..4 samples and 2..5 mapping entries with additive posterior samples. Non-trivial = unequal "
    "chain lengths, a repeated single-agent measurement, or a missing one, or a production-size evaluation. distinct = distinct case JSON."
    ' In a third of the evaluation cases every write request of save_h5 fails in turn with ENOSPC over an older archive (a save that returns normally must have saved).'
    " Effect cases use id arrays of every integer width (int8 .. int64, uint16) with ids scaled to the top of the width's range."
    ' Chain labels may be 64-bit numbers more than 2**63 apart, stored chain after chain, permuted or draw by draw.'
)
ASSUMPTIONS = [
    "tolerance: 1e-10 relative to the metric's own value (the two variances additionally 1e-12 x the squared mean they are the spread around); 1e-10 / 1e-8 with a small absolute floor for effect arrays, synergy and the similarity matrix",
    "the similarity matrix is accepted if it equals either the across-sample-centred cosine similarity (the shipped definition) or the per-sample Pearson correlation of the averaged predictions; undefined (zero-norm) entries are only required not to be a wrong finite value",
]


def budgets(tier):
    if tier == "quick":
        return {"examples": 2500, "max_s": 80, "shrink_s": 20, "shards": 1}
    return {"examples": 15000, "max_s": 700, "shrink_s": 90, "shards": 16}


_f = st.one_of(st.sampled_from([0.0, 1.0, 0.5, -1.0, 1e-3]), st.floats(min_value=-5, max_value=5, allow_nan=False))
# viabilities: special values (fully lethal = exactly 0, no effect = exactly 1, bounds of the usual clipping) are frequent
_u = st.one_of(st.sampled_from([0.0, 0.0, 1.0, 0.5, 0.01, 0.99, 1e-300]), st.floats(min_value=0.0, max_value=1.2, allow_nan=False))


@st.composite
def _evaluation(draw):
    e = draw(st.integers(1, 12))
    t = draw(st.integers(1, 9))
    n_ch = draw(st.integers(1, min(3, t)))
    chains = sorted(draw(st.lists(st.integers(0, n_ch - 1), min_size=t, max_size=t)))
    # chain labels are arbitrary integers: 1-based, with gaps, negative; now and then the columns are not grouped by chain
    # ... or 64-bit fingerprints / seeds used as labels (differences between labels exceed the int64 range)
    relabel = draw(st.sampled_from([None, None, [1, 2, 3], [0, 2, 5], [-1, 0, 1], [-2, 3, 1], [7, -1, 4], [-6 * 10**18, 0, 6 * 10**18], [-(2**63), -1, 2**63 - 1], [2**63 - 1, -(2**63), 5], [4 * 10**18, -5 * 10**18, 9 * 10**18]]))
    if relabel:
        chains = [relabel[c] for c in chains]
    arrangement = draw(st.integers(0, 4))
    if arrangement == 0:
        chains = draw(st.permutations(chains))
    elif arrangement == 1 and n_ch >= 2:
        # stored draw by draw: chains ascending inside each draw (round-robin), not chain after chain
        by = {}
        for c in chains:
            by[c] = by.get(c, 0) + 1
        chains = [c for r in range(max(by.values())) for c in sorted(by) if by[c] > r]
    obs = [draw(_f) for _ in range(e)]
    if draw(st.integers(0, 3)) == 0:
        # a near-perfect fit: every prediction within 1e-6 .. 1e-9 of its observation (errors far smaller than the values themselves)
        scale = draw(st.sampled_from([1e-6, 1e-8, 1e-9]))
        pred = [[o_ + scale * draw(st.floats(min_value=-1, max_value=1, allow_nan=False)) for _ in range(t)] for o_ in obs]
    else:
        pred = [[draw(_f) for _ in range(t)] for _ in range(e)]
    return {
        "kind": "evaluation",
        "pred": pred,
        "obs": obs,
        "chains": chains,
        "names": [draw(S.names) for _ in range(e)],
    }


@st.composite
def _effects(draw):
    a = draw(st.sampled_from([2, 2, 3]))
    n = draw(st.integers(1, 12))
    ns = draw(st.integers(1, 3))
    nt = draw(st.integers(1, 4))
    rows = []
    for _ in range(n):
        mode = draw(st.sampled_from(["single", "single", "combo", "any"]))
        if mode == "single":
            t = [-1] * a
            t[draw(st.integers(0, a - 1))] = draw(st.integers(0, nt - 1))
        elif mode == "combo":
            t = [draw(st.integers(0, nt - 1)) for _ in range(a)]
        else:
            t = [draw(st.integers(-1, nt - 1)) for _ in range(a)]
        rows.append({"s": draw(st.integers(0, ns - 1)), "t": t, "o": draw(_u)})
    # the ids as they come out of a screen (int64), or as narrower integers (a compact copy) holding ids of a large experiment space:
    # sample s becomes s * s_step + s_base, treatment t becomes t * t_step + t_base (the control stays -1)
    big = draw(st.sampled_from([None, None, None, ["int16", 97, 3, 89, 11], ["int16", 150, 0, 127, 2], ["int32", 23170, 7, 23170, 5], ["int32", 40000, 1, 30000, 0], ["int8", 11, 2, 12, 1], ["uint16", 255, 1, 257, 0], ["int64", 3037000500, 0, 3037000499, 1]]))
    return {"kind": "effects", "arity": a, "rows": rows, "strict": draw(st.booleans()), "int_obs": draw(st.sampled_from([None, None, None, 1, 3, 100])), "big_ids": big}


@st.composite
def _similarity(draw):
    sc = draw(S.simple_screen(n_samples=(2, 4), n_treat=(1, 4), n_rows=(2, 8)))
    # every sample must occur (correlation over the screen's unique samples)
    n_th = draw(st.integers(1, 3))
    thetas = [draw(S.theta_params("additive", sc["ns"], sc["nt"], D=2)) for _ in range(n_th)]
    return {"kind": "similarity", "screen": sc, "thetas": thetas}


@st.composite
def _evaluation_big(draw):
    """evaluations of production size (hundreds to thousands of experiments x tens to hundreds of posterior samples), described
    by their parameters; the matrix is a pure function of them"""
    e = draw(st.one_of(st.integers(200, 1100), st.sampled_from([219, 700, 1023, 1024, 1025, 2049])))
    t = draw(st.one_of(st.integers(30, 300), st.sampled_from([63, 64, 65, 257, 300])))
    return {"kind": "evaluation_big", "E": e, "T": t, "n_chains": draw(st.integers(1, 4)), "seed": draw(st.integers(0, 2**32 - 1))}


def strategy(tier):
    return st.one_of(_evaluation(), _evaluation(), _effects(), _effects(), _effects(), _effects(), _similarity(), _similarity(), _evaluation_big())


def exhaustive(tier):
    # chains labelled with 64-bit numbers (fingerprints, seeds), stored draw by draw
    for labels in ([-6 * 10**18, 0, 6 * 10**18], [-(2**63), -1, 2**63 - 1], [4 * 10**18, -5 * 10**18, 9 * 10**18], [-(2**63), 2**63 - 1], [2**62, -(2**62) - 5, 3, -7]):
        for t in (len(labels) + 1, 2 * len(labels) + 1, 9):
            yield {"kind": "evaluation", "pred": [[0.1 * i + 0.05 * j * j + 0.01 * ((i * j) % 3) for j in range(t)] for i in range(4)], "obs": [0.2, 0.3, 0.5, 0.1], "chains": [sorted(labels)[j % len(labels)] for j in range(t)], "names": ["a", "b", "c", "d"]}
    for e, t in [(700, 300), (1025, 64), (65537, 1), (3, 65537), (300007, 64)] + ([(4100, 257), (70001, 16), (2**24 // 3 + 5, 3), (2**25 // 7 + 3, 7)] if tier != "quick" else []):
        yield {"kind": "evaluation_big", "E": e, "T": t, "n_chains": 3 if t >= 3 else 1, "seed": e + t}


def _close(a, b, rtol=1e-10):
    a, b = np.asarray(a, dtype=float), np.asarray(b, dtype=float)
    return a.shape == b.shape and bool(np.allclose(a, b, rtol=rtol, atol=1e-12, equal_nan=True))


def _check_evaluation(case):
    from batchie.models.main import ModelEvaluation

    P = np.array(case["pred"], dtype=float)
    y = np.array(case["obs"], dtype=float)
    ch = np.array(case["chains"], dtype=int)
    nm = np.array(case["names"], dtype=str)
    E, T = P.shape
    me = ModelEvaluation(predictions=P.copy(), observations=y.copy(), chain_ids=ch.copy(), sample_names=nm.copy())
    # other evaluations (same chain labels on other columns, another number of columns) constructed afterwards and alive while `me` is
    # asked for its metrics: an evaluation's numbers are its own
    others = [  # noqa: F841
        ModelEvaluation(predictions=P[:, ::-1].copy() * 0.5, observations=y.copy() + 0.25, chain_ids=ch[::-1].copy(), sample_names=nm.copy()),
        ModelEvaluation(predictions=np.concatenate([P, P[:, :1] + 1.0], axis=1), observations=y.copy(), chain_ids=np.concatenate([ch[1:], ch[:1], ch[:1]]), sample_names=nm.copy()),
    ]
    sq = [[(P[e, t] - y[e]) ** 2 for t in range(T)] for e in range(E)]
    mse = sum(sum(r) for r in sq) / (E * T)
    per_e = [sum(r) / T for r in sq]
    mbar = sum(per_e) / E
    var_e = sum((x - mbar) ** 2 for x in per_e) / E
    chain_mses = []
    for c in sorted(set(ch.tolist())):
        cols = [t for t in range(T) if ch[t] == c]
        chain_mses.append(sum(sq[e][t] for e in range(E) for t in cols) / (E * len(cols)))
    cbar = sum(chain_mses) / len(chain_mses)
    var_c = sum((x - cbar) ** 2 for x in chain_mses) / len(chain_mses)
    # tolerances relative to the quantities themselves (a near-perfect fit has errors of 1e-12 and below): 1e-10 of the value; the two
    # variances may in addition carry the rounding of the squared mean they are the spread around (1e-12 x mean^2)
    def near(got, ref, extra=0.0):
        got = float(got)
        return got == ref or abs(got - ref) <= 1e-10 * abs(ref) + extra

    require(near(me.mse(), mse), "mse", lambda: "mse %r, direct %r" % (me.mse(), mse))
    require(near(me.mse_variance(), var_e, 1e-12 * mbar * mbar), "mse_variance", lambda: "mse_variance %r, variance across experiments of the per-experiment MSE %r" % (me.mse_variance(), var_e))
    require(near(me.inter_chain_mse_variance(), var_c, 1e-12 * cbar * cbar), "inter_chain_mse_variance", lambda: "inter-chain variance %r, variance of per-chain MSEs %r (chains %r)" % (me.inter_chain_mse_variance(), var_c, ch.tolist()))
    require(_close(me.mean_predictions, [sum(P[e]) / T for e in range(E)]), "mean_predictions", "mean_predictions is not the average over posterior samples")
    p = tmp.fresh("me.h5")
    try:
        # the path already holds another evaluation of the same shape (a re-run): saving replaces it
        ModelEvaluation(predictions=P[::-1].copy() + 1.0, observations=y[::-1].copy() - 1.0, chain_ids=ch[::-1].copy(), sample_names=nm[::-1].copy()).save_h5(p)
        me.save_h5(p)
        me2 = ModelEvaluation.load_h5(p)
    finally:
        tmp.cleanup(p)
    require(S.same_bits(me2.predictions, P) and S.same_bits(me2.observations, y) and np.array_equal(np.asarray(me2.chain_ids), ch) and S.same_str(me2.sample_names, nm), "evaluation.reload", "evaluation file does not reload unchanged")
    require(_close(me2.mse(), mse), "evaluation.reload.mse", "metrics differ after reload")
    counts = {}
    if (E + T + len(set(ch.tolist()))) % 3 == 0:
        # the same save with a storage failure injected into each of its write requests in turn (the path holds an older evaluation):
        # a save that returns normally has saved
        from vf import iofault

        used = []

        def paths(k):
            q = tmp.fresh("me_fault_%d.h5" % k)
            used.append(q)
            ModelEvaluation(predictions=P[::-1].copy() + 1.0, observations=y[::-1].copy() - 1.0, chain_ids=ch[::-1].copy(), sample_names=nm[::-1].copy()).save_h5(q)
            return q

        def verify(q):
            m3 = ModelEvaluation.load_h5(q)
            require(S.same_bits(m3.predictions, P) and S.same_bits(m3.observations, y) and np.array_equal(np.asarray(m3.chain_ids), ch) and S.same_str(m3.sample_names, nm), "evaluation.save_under_faults", "save_h5 returned normally although one of its write requests failed (disk full), and the file does not hold the evaluation that was saved")

        try:
            nreq, ret_, rais_ = iofault.save_under_faults(me.save_h5, verify, paths, require, "evaluation.save_under_faults", "ModelEvaluation.save_h5")
        finally:
            tmp.cleanup(*used)
        counts = {"io_fault_points": nreq, "io_fault_saves_raised": rais_, "io_fault_saves_returned": ret_}
    sizes = [int(np.sum(ch == c)) for c in set(ch.tolist())]
    labels = ["evaluation", "chains=%d" % len(sizes)]
    return {"nontrivial": len(set(sizes)) > 1, "labels": labels + (["unequal-chains"] if len(set(sizes)) > 1 else []) + (["storage-faults-injected"] if counts else []), "counts": counts}


def _check_evaluation_big(case):
    from batchie.models.main import ModelEvaluation

    E, T = case["E"], case["T"]
    r = np.random.default_rng(case["seed"])
    P = r.uniform(0, 1, size=(E, T))
    # errors grow along the experiments and differ between chains, so that any re-weighting of rows or columns shows
    P += np.linspace(0, 1.5, E)[:, None] ** 2
    y = r.uniform(0, 1, size=E)
    cuts = sorted(r.choice(np.arange(1, T), size=min(case["n_chains"], T) - 1, replace=False).tolist()) if T > 1 else []
    ch = np.zeros(T, dtype=int)
    for c_ in cuts:
        ch[c_:] += 1
    P += 0.3 * ch[None, :]
    me = ModelEvaluation(predictions=P.copy(), observations=y.copy(), chain_ids=ch.copy(), sample_names=np.array(["s%d" % (i % 7) for i in range(E)]))
    sq = (P - y[:, None]) ** 2
    if E * T > 2_000_000:
        # (very large matrices: extended-precision numpy reductions instead of exact Python sums)
        ld = np.longdouble
        mse = float(np.sum(sq, dtype=ld) / (E * T))
        per_e_arr = np.sum(sq, axis=1, dtype=ld) / T
        per_e = per_e_arr.astype(float).tolist()
        mbar = float(np.sum(per_e_arr) / E)
        var_e = float(np.sum((per_e_arr - np.sum(per_e_arr) / E) ** 2) / E)
        chain_mses = [float(np.sum(sq[:, np.where(ch == c)[0]], dtype=ld) / (E * int(np.sum(ch == c)))) for c in sorted(set(ch.tolist()))]
    else:
        mse = math.fsum(sq.ravel().tolist()) / (E * T)
        per_e = [math.fsum(row) / T for row in sq.tolist()]
        mbar = math.fsum(per_e) / E
        var_e = math.fsum((x - mbar) ** 2 for x in per_e) / E
        chain_mses = []
        for c in sorted(set(ch.tolist())):
            cols = np.where(ch == c)[0]
            chain_mses.append(math.fsum(sq[:, cols].ravel().tolist()) / (E * len(cols)))
    cbar = math.fsum(chain_mses) / len(chain_mses)
    var_c = math.fsum((x - cbar) ** 2 for x in chain_mses) / len(chain_mses)
    require(_close(me.mse(), mse), "mse.large", lambda: "%d experiments x %d samples: mse %r, direct %r" % (E, T, me.mse(), mse))
    require(_close(me.mse_variance(), var_e), "mse_variance.large", lambda: "%d x %d: mse_variance %r, variance across experiments of the per-experiment MSE %r" % (E, T, me.mse_variance(), var_e))
    require(_close(me.inter_chain_mse_variance(), var_c, rtol=1e-8), "inter_chain_mse_variance.large", lambda: "%d x %d: inter-chain variance %r, variance of per-chain MSEs %r" % (E, T, me.inter_chain_mse_variance(), var_c))
    require(_close(me.mean_predictions, (np.sum(P, axis=1, dtype=np.longdouble) / T).astype(float) if E * T > 2_000_000 else [math.fsum(row) / T for row in P.tolist()]), "mean_predictions.large", "mean_predictions is not the average over posterior samples")
    return {"nontrivial": True, "labels": ["evaluation_big", "entries>=2^%d" % int(math.log2(E * T))]}


def _oracle_map(sid, tid, obs):
    a = tid.shape[1]
    out = {}
    uniq_t = sorted(set(tid.ravel().tolist()))
    for s in sorted(set(sid.tolist())):
        for t in uniq_t:
            if t == -1:
                out[(s, -1)] = 1.0
                continue
            vals = []
            for r in range(len(sid)):
                row = tid[r].tolist()
                if sid[r] == s and row.count(-1) == a - 1 and t in row:
                    vals.append(obs[r])
            if vals:
                out[(s, t)] = sum(vals) / len(vals)
    return out


def _check_effects(case):
    from batchie.data import create_single_treatment_effect_array, create_single_treatment_effect_map
    from batchie.synergy import calculate_synergy

    rows = case["rows"]
    a = case["arity"]
    sid = np.array([r["s"] for r in rows], dtype=int)
    tid = np.array([r["t"] for r in rows], dtype=int).reshape(len(rows), a)
    if case.get("big_ids"):
        dt_, s_step, s_base, t_step, t_base = case["big_ids"]
        sid = (sid * s_step + s_base).astype(dt_)
        tid = np.where(tid < 0, -1, tid * t_step + t_base).astype(dt_ if not dt_.startswith("u") else "int32")
    obs = np.array([r["o"] for r in rows], dtype=float)
    if case.get("int_obs"):
        # outcomes recorded as whole numbers (0/1 calls, counts) in an INTEGER array: the effects are still their exact means
        obs = np.round(obs * case["int_obs"]).astype(np.int64)
    ref = _oracle_map(sid, tid, obs)
    got = create_single_treatment_effect_map(sample_ids=sid.copy(), treatment_ids=tid.copy(), observation=obs.copy())
    got = {(int(k[0]), int(k[1])): float(v) for k, v in got.items()}
    require(sorted(got) == sorted(ref), "effect_map.keys", lambda: "effect map keys %r, expected %r" % (sorted(got), sorted(ref)))
    for k in ref:
        require(_close(got[k], ref[k]), "effect_map.values", lambda: "effect of %r is %r, mean of its single-agent observations is %r" % (k, got[k], ref[k]))
    complete = all((int(s), int(t)) in ref for s, row in zip(sid, tid) for t in row)
    try:
        arr = create_single_treatment_effect_array(sample_ids=sid.copy(), treatment_ids=tid.copy(), observation=obs.copy())
    except KeyError:
        require(not complete, "effect_array.keyerror_only_when_unmeasured", "KeyError although every (sample, treatment) has a single-agent measurement")
        arr = None
    else:
        require(complete, "effect_array.raises_when_unmeasured", "effect array returned although a single-agent measurement is missing")
        exp = np.array([[ref[(int(s), int(t))] for t in row] for s, row in zip(sid, tid)], dtype=float)
        require(_close(arr, exp), "effect_array.values", lambda: "effect array %r, expected %r" % (np.asarray(arr).tolist(), exp.tolist()))
    repeated = any(sum(1 for r in range(len(sid)) if sid[r] == s and tid[r].tolist().count(-1) == a - 1 and t in tid[r].tolist()) >= 2 for (s, t) in ref if t != -1)
    labels = ["effects", "arity=%d" % a]
    if repeated:
        labels.append("repeated-single-agent")
    if not complete:
        labels.append("missing-single-agent")

    # synergy: arity 2, every row has >= 1 non-control treatment
    if a == 2:
        keep = [r for r in range(len(sid)) if tid[r].tolist().count(-1) < 2]
        if keep:
            s2, t2, o2 = sid[keep], tid[keep], obs[keep]
            ref2 = _oracle_map(s2, t2, o2)
            exp = []
            missing = False
            for r in range(len(s2)):
                row = t2[r].tolist()
                if row.count(-1) == 1:
                    continue
                effs = [ref2.get((int(s2[r]), t)) for t in row]
                if any(e is None for e in effs):
                    missing = True
                    continue
                exp.append((int(s2[r]), tuple(row), effs[0] * effs[1] - o2[r]))
            try:
                rs, rt, rv = calculate_synergy(sample_ids=s2.copy(), treatment_ids=t2.copy(), observation=o2.copy(), strict=case["strict"])
            except ValueError:
                require(case["strict"] and missing, "synergy.strict_only", lambda: "calculate_synergy raised although strict=%s and missing=%s" % (case["strict"], missing))
            else:
                require(not (case["strict"] and missing), "synergy.strict_refuses", "strict mode returned although a combination lacks a single-agent measurement")
                gotl = [(int(s), tuple(int(x) for x in t), float(v)) for s, t, v in zip(rs, rt, rv)]
                require(len(gotl) == len(exp), "synergy.rows", lambda: "synergy returned for %d combinations, expected %d" % (len(gotl), len(exp)))
                for g, e in zip(gotl, exp):
                    require(g[0] == e[0] and g[1] == e[1] and _close(g[2], e[2]), "synergy.values", lambda: "synergy %r, expected product of single effects minus observation %r" % (g, e))
                labels.append("synergy-strict" if case["strict"] else "synergy-lenient")
    return {"nontrivial": repeated or not complete, "labels": labels}


def _check_similarity(case):
    from batchie.models.main import correlation_matrix
    from batchie.retrospective import calculate_mse
    from checks.c09_predictions import _oracle_mean

    sc = case["screen"]
    tm, sm = S.space_mappings(sc["ns"], sc["nt"])
    screen = S.build_screen(dict(sc, observed=sorted({r["p"] for r in sc["rows"]})), treatment_mapping=tm, sample_mapping=sm)
    holder = S.build_holder(case["thetas"])
    # calculate_mse
    avg = np.mean([np.clip(expit(_oracle_mean(p, np.asarray(screen.sample_ids).astype(int), np.asarray(screen.treatment_ids).astype(int))[0]), 0.01, 0.99) for p in case["thetas"]], axis=0)
    ref_mse = float(np.mean((avg - np.asarray(screen.observations)) ** 2))
    require(_close(calculate_mse(screen, holder), ref_mse, rtol=1e-9), "calculate_mse", lambda: "calculate_mse %r, direct %r" % (calculate_mse(screen, holder), ref_mse))

    with np.errstate(all="ignore"):
        df = correlation_matrix(screen, holder)
    got = np.asarray(df.values, dtype=float)
    sids = sorted(set(int(x) for x in screen.sample_ids))
    names = [str(sm[0][i]) for i in sids]
    require([str(x) for x in df.index] == names and [str(x) for x in df.columns] == names, "similarity.labels", lambda: "matrix labelled %r, samples %r" % (list(df.index), names))
    ids = [int(x) for x in tm[2]]
    combos = list(itertools.combinations(range(len(ids)), 2))
    require(len(combos) == math.comb(len(ids), 2), "similarity.combos", "internal")
    tid = np.array([[ids[i], ids[j]] for i, j in combos], dtype=int)
    preds = []
    for s in sids:
        ps = [np.clip(expit(_oracle_mean(p, np.full(len(combos), s, dtype=int), tid)[0]), 0.01, 0.99) for p in case["thetas"]]
        preds.append(np.mean(ps, axis=0))
    preds = np.stack(preds)
    with np.errstate(all="ignore"):
        X = preds - preds.mean(axis=0, keepdims=True)
        Xn = X / np.sqrt((X**2).sum(axis=1, keepdims=True))
        ref_a = Xn @ Xn.T
        Y = preds - preds.mean(axis=1, keepdims=True)
        Yn = Y / np.sqrt((Y**2).sum(axis=1, keepdims=True))
        ref_b = Yn @ Yn.T
    require(got.shape == (len(sids), len(sids)), "similarity.shape", "wrong shape")
    fin = np.isfinite(got)
    require(bool(np.all((np.abs(got - got.T) <= 1e-9) | ~fin | ~fin.T)), "similarity.symmetric", lambda: "not symmetric: %r" % got.tolist())
    ok_a = bool(np.all(np.isclose(got, ref_a, rtol=1e-8, atol=1e-8) | ~np.isfinite(ref_a)))
    ok_b = bool(np.all(np.isclose(got, ref_b, rtol=1e-8, atol=1e-8) | ~np.isfinite(ref_b)))
    require(ok_a or ok_b, "similarity.values", lambda: "similarity %r; from independently computed average predictions over all %d unordered combinations: %r" % (got.tolist(), len(combos), ref_a.tolist()))
    d = np.diag(got)
    require(bool(np.all(np.isclose(d, 1.0, atol=1e-9) | ~np.isfinite(d))), "similarity.unit_diagonal", lambda: "diagonal %r" % d.tolist())
    return {"nontrivial": len(sids) >= 3 and bool(np.all(np.isfinite(got))), "labels": ["similarity", "samples=%d" % len(sids)]}


def check_case(case):
    if case["kind"] == "evaluation":
        return _check_evaluation(case)
    if case["kind"] == "evaluation_big":
        return _check_evaluation_big(case)
    if case["kind"] == "effects":
        return _check_effects(case)
    return _check_similarity(case)
