"""C06 - every candidate plate is scored once; the minimum-score allowed plate is chosen."""
import math

import numpy as np
from hypothesis import strategies as st

from vf import strategies as S
from vf import tmp
from vf import xproc
from vf.cli import run_cli
from vf.engine import Violation, require

ID = "C06"
LEVEL = "exploration"
TECHNIQUE = "Hypothesis-generated screens/masks/chunk counts/batches with a spying Scorer; multiset-coverage and selection-validity oracles; CLI differential with SizeScorer"
RULE = (
    "screens with 1..8 plates (arity 1..2, duplicate conditions across plates), any plate-atomic mask incl. nothing/everything observed, "
    "n_chunks in 1..plates+3, batch of 0..3 unobserved plate ids in any order with repeats (handed over as list, tuple, set, frozenset, dict keys or numpy integers), per-plate scores from {-inf,0,1,1,2.5} U floats U near-ties (distinct values agreeing to 1e-10 .. one ulp) "
    "(ties forced), chunk files combined in a drawn order, policy None or KPerSample(k); 1 in 4 cases through the calculate_scores / "
    "select_next_plate CLIs. Non-trivial = (n_chunks>=2 and non-empty batch) or ties at the minimum or n_chunks > candidates. distinct = distinct case JSON."
    ' Also: fixed cases in which every chunk index is computed by its own interpreter process with its own string-hash salt.'
    ' Also: four-slot conditions on screens whose treatment table has 2**k - 2 .. 2**k entries (k = 8, 16; thorough 12); a third of the CLI cases name every score file scores.h5 in a directory of its own.'
    ' Freshly loaded chunks are also combined in three bracketings (combine inside concat, concat of concats, concat then combine).'
)
ASSUMPTIONS = [
    "'distinct condition' is the ordered tuple (sample id, treatment ids) - what filter_dataset_to_unique_treatments documents; which duplicate survives is not asserted",
    "with a policy the allowed set is whatever the policy object returns for (batch plates, remaining unobserved plates); the policy itself is C16",
    "batch ids are ids of unobserved plates (already selected plates of this batch); scores are not NaN",
]


def budgets(tier):
    if tier == "quick":
        return {"examples": 500, "max_s": 80, "shrink_s": 20, "shards": 1}
    return {"examples": 3000, "max_s": 700, "shrink_s": 90, "shards": 16}


# near ties: distinct float64 scores that agree to 1e-10 .. one ulp (a selection must still respect "strictly lower")
_near = st.tuples(st.sampled_from([1234.5678901, -7.25, 1.0, -1.0, 100.0, 1e-3]), st.integers(-3, 3), st.sampled_from([2.0**-52, 1e-12, 1e-10, 5e-10])).map(lambda t: t[0] * (1.0 + t[1] * t[2]))
_score = st.one_of(st.sampled_from([-math.inf, 0.0, 1.0, 1.0, 2.5, -1.0]), st.floats(min_value=-100, max_value=100, allow_nan=False), _near, _near)


@st.composite
def _case(draw):
    policy_k = draw(st.sampled_from([0, 0, 1, 2, 3]))
    sc = draw(
        S.simple_screen(
            n_samples=(1, 3),
            n_treat=draw(st.sampled_from([(1, 3), (3, 8)])),  # few conditions (duplicates across plates) or many (unions without duplicates)
            n_rows=(1, 16),
            n_plates=(1, 8) if not policy_k else (1, 4),
            arity=draw(st.sampled_from([1, 2, 2])),
            single_sample_plates=bool(policy_k),
        )
    )
    mode = draw(st.sampled_from(["as-drawn", "as-drawn", "none-observed", "all-observed"]))
    plates = sorted({r["p"] for r in sc["rows"]})
    if mode == "none-observed":
        sc["observed"] = []
    elif mode == "all-observed":
        sc["observed"] = plates
    n_pl = len(plates)
    return {
        "screen": sc,
        "n_chunks": draw(st.one_of(st.integers(1, n_pl + 3), st.sampled_from([1, 1, 2]))),
        "batch_picks": draw(st.one_of(st.lists(st.integers(0, 20), max_size=3), st.lists(st.integers(0, 20), min_size=1, max_size=2))),
        "batch_repeat": draw(st.booleans()),
        # one case in four: every plate's score is a near-tie of ONE base value (the minimum is then decided in the last digits)
        "scores": [draw(_score) for _ in range(n_pl)] if draw(st.integers(0, 3)) else (lambda b, e: [b * (1.0 + draw(st.integers(-4, 4)) * e) for _ in range(n_pl)])(draw(st.sampled_from([1234.5678901, -7.25, 1.0, -1.0, 100.0, 2e-6])), draw(st.sampled_from([2.0**-52, 1e-12, 1e-10, 2e-10]))),
        "order_seed": draw(st.integers(0, 10**6)),
        "policy_k": policy_k,
        "cli": draw(st.integers(0, 3)) == 0,
    }


def strategy(tier):
    return _case()


def exhaustive(tier):
    # the chunks of one scoring task computed the way the pipeline computes them: one interpreter process per chunk index, each
    # with its own string-hash salt; together they must still score every candidate exactly once
    def sc_(n_pl, names):
        rows = []
        for p_ in range(n_pl):
            for r_ in range(1 + p_ % 3):
                rows.append({"s": "s%d" % (p_ % 2), "p": names(p_), "t": ["t%d" % ((p_ + r_) % 5), "t%d" % ((p_ + 2 * r_ + 1) % 5)], "d": [1.0, 2.0], "o": 0.5})
        return {"arity": 2, "control": "ctl", "rows": rows, "observed": [names(0)], "ns": 2, "nt": 10, "layout": None}

    # conditions with four treatment slots on screens whose treatment table sits at 2**8 / 2**16 entries (one less, one more): the
    # candidates repeat the batch's treatment combinations in other samples and in other slot orders
    for nt in [254, 65534, 65535] + ([255, 256, 65536, 4094, 4095] if tier != "quick" else []):
        yield {"wide": {"nt": nt, "arity": 4}, "n_chunks": 2, "batch_picks": [0], "batch_repeat": False, "scores": [1.0, 2.0, 0.5, 3.0, 1.5, 0.25], "order_seed": nt, "policy_k": 0, "cli": False}
    todo = [(7, 3, [], 0), (6, 2, [1], 1)] if tier == "quick" else [(7, 3, [], 0), (6, 2, [1], 1), (9, 4, [], 2), (12, 5, [0, 3], 0), (8, 8, [], 1), (5, 2, [], 2), (10, 3, [2], 0), (16, 7, [], 1)]
    for n_pl, n_chunks, picks, style in todo:
        names = [lambda i: "plate_%d" % i, lambda i: "P%02d-%s" % (i, "abcdefgh"[i % 8] * (1 + i % 3)), lambda i: str(1000 - 7 * i)][style]
        yield {"screen": sc_(n_pl, names), "n_chunks": n_chunks, "batch_picks": picks, "batch_repeat": False, "scores": [float((5 * i) % 7) for i in range(n_pl)], "order_seed": n_pl, "policy_k": 0, "cli": True, "xproc": True}


def _wide_sc(g):
    nt, ar = g["nt"], g["arity"]
    w = len(str(nt))
    tn = lambda t: "ctl" if t < 0 else "t%0*d" % (w, t)
    top = nt - 1
    rows = []
    for r in range((nt + ar - 1) // ar):  # an observed plate on which every treatment occurs
        ts = [min(top, r * ar + c) for c in range(ar)]
        rows.append({"s": "s%d" % (r % 5), "p": "zz_observed", "t": [tn(t) for t in ts], "d": [1.0] * ar, "o": 0.5})
    pats = [(top,) * ar, (0,) * ar, (top, 0) * (ar // 2), (0, top) * (ar // 2), (top,) + (-1,) * (ar - 1), (-1,) * (ar - 1) + (top,), (1, 2, 3, 4)[:ar], (top, top - 1, 1, 0)[:ar]]
    for k, (plate, smp) in enumerate([("a_batch", 0), ("b_cand", 1), ("c_cand", 4), ("d_cand", 0), ("e_cand", 2)]):
        for j, p_ in enumerate(pats if plate != "d_cand" else [p_[::-1] for p_ in pats]):
            if plate == "e_cand" and j % 2:
                continue
            rows.append({"s": "s%d" % smp, "p": plate, "t": [tn(t) for t in p_], "d": [0.0 if t < 0 else 1.0 for t in p_], "o": 0.5})
    return {"arity": ar, "control": "ctl", "rows": rows, "observed": ["zz_observed"], "ns": 5, "nt": nt, "layout": None}


def _conditions(screen, sel):
    sid = np.asarray(screen.sample_ids)[sel]
    tid = np.asarray(screen.treatment_ids)[sel]
    return [(int(s),) + tuple(int(x) for x in t) for s, t in zip(sid, tid)]


def check_case(case):
    from batchie.core import Scorer, ThetaHolder
    from batchie.distance_calculation import ChunkedDistanceMatrix
    from batchie.policies.k_per_sample import KPerSamplePlatePolicy
    from batchie.scoring.main import ChunkedScoresHolder, score_chunk, select_next_plate

    sc = case["screen"] if "wide" not in case else _wide_sc(case["wide"])
    screen = S.build_screen(sc)
    plates = {int(p.plate_id): p for p in screen.plates}
    unobs = sorted(pid for pid, p in plates.items() if not bool(np.all(p.observation_mask)))
    # batch: drawn picks into the unobserved plates (any order, optional repeat)
    batch = []
    for b in case["batch_picks"]:
        if unobs:
            batch.append(unobs[b % len(unobs)])
    if case["batch_repeat"] and batch:
        batch = batch + [batch[0]]
    batch_set = set(batch)
    candidates = [u for u in unobs if u not in batch_set]
    score_of = {pid: case["scores"][i % len(case["scores"])] for i, pid in enumerate(sorted(plates))}
    n_chunks = case["n_chunks"]

    class Spy(Scorer):
        def __init__(self):
            self.calls = []

        def score(self, plates, distance_matrix, samples, rng, progress_bar):
            self.calls.append({int(k): np.asarray(v.selection_vector).copy() for k, v in plates.items()})
            return {k: score_of[int(k)] for k in plates}

    holder = ThetaHolder(n_thetas=3)
    dm = ChunkedDistanceMatrix(size=3)
    spy = Spy()
    holders = []
    for c in range(n_chunks):
        if batch or c % 2:
            h, _kind = S.call_with_container(lambda b_: score_chunk(scorer=spy, thetas=holder, screen=screen, distance_matrix=dm, rng=np.random.default_rng(0), n_chunks=n_chunks, chunk_index=c, batch_plate_ids=b_), batch, S.CONTAINERS[(case["order_seed"] + c) % len(S.CONTAINERS)] if batch else "list")
        else:
            h = score_chunk(scorer=spy, thetas=holder, screen=screen, distance_matrix=dm, rng=np.random.default_rng(0), n_chunks=n_chunks, chunk_index=c, batch_plate_ids=None)
        holders.append(h)
    handed = [pid for call in spy.calls for pid in call]
    require(sorted(handed) == candidates, "scored.exactly_candidates_once", lambda: "plates handed to the scorer over all chunks %r; unobserved plates not in the batch %r (batch %r, n_chunks %d)" % (sorted(handed), candidates, batch, n_chunks))
    batch_rows = np.zeros(screen.size, dtype=bool)
    for b in batch_set:
        batch_rows |= np.asarray(plates[b].selection_vector)
    for call in spy.calls:
        for pid, sel in call.items():
            own = np.asarray(plates[pid].selection_vector)
            if not batch:
                require(np.array_equal(sel, own), "scored.own_rows", lambda: "plate %d scored on rows %r, its rows are %r" % (pid, np.where(sel)[0].tolist(), np.where(own)[0].tolist()))
            else:
                union = own | batch_rows
                require(not np.any(sel & ~union), "scored.within_union", lambda: "plate %d scored on rows outside itself and the batch: %r" % (pid, np.where(sel & ~union)[0].tolist()))
                got = _conditions(screen, sel)
                require(len(got) == len(set(got)), "scored.one_per_condition", lambda: "plate %d: a condition is scored twice: %r" % (pid, got))
                require(set(got) == set(_conditions(screen, union)), "scored.all_conditions", lambda: "plate %d: conditions %r missing from the scored subset" % (pid, sorted(set(_conditions(screen, union)) - set(got))))
    for h in holders:
        require(int(h.current_index) == len(h.scores) == len(h.plate_ids), "holder.filled", "scores holder not completely filled")

    # ---- persistence and combination in any order, then selection
    paths = []
    try:
        files = []
        for c, h in enumerate(holders):
            p = tmp.fresh("scores_%d.h5" % c)
            paths.append(p)
            h.save_h5(p)
            files.append(p)
        rng = np.random.default_rng(case["order_seed"])
        order = list(rng.permutation(len(files)))
        loaded = [ChunkedScoresHolder.load_h5(files[i]) for i in order]
        combined = ChunkedScoresHolder.concat(loaded)
        got_pairs = sorted((int(p), float(s)) for p, s in zip(combined.plate_ids[: combined.current_index], combined.scores[: combined.current_index]))
        exp_pairs = sorted((pid, float(score_of[pid])) for pid in candidates)
        require(got_pairs == exp_pairs, "combined.contents", lambda: "combined scores %r, expected %r (order %r)" % (got_pairs, exp_pairs, order))
        # ... and in any bracketing: freshly loaded chunks are combined pairwise, concatenated in groups, and groups with groups
        if len(files) >= 2:
            pairs_of = lambda h_: sorted((int(p_), float(s_)) for p_, s_ in zip(h_.plate_ids[: h_.current_index], h_.scores[: h_.current_index]))
            fresh = lambda: [ChunkedScoresHolder.load_h5(files[i]) for i in order]
            cut = 1 + case["order_seed"] % (len(files) - 1)
            a_ = fresh()
            left = a_[0]
            for h_ in a_[1:cut]:
                left = left.combine(h_)
            g1 = ChunkedScoresHolder.concat([left] + a_[cut:])  # a combine() result among the inputs of concat
            b_ = fresh()
            g2 = ChunkedScoresHolder.concat([ChunkedScoresHolder.concat(b_[:cut]), ChunkedScoresHolder.concat(b_[cut:])])  # concat of concats
            c_ = fresh()
            g3 = ChunkedScoresHolder.concat(c_[:cut])
            for h_ in c_[cut:]:
                g3 = g3.combine(h_)  # a concat result extended by combine()
            for tag_, g_ in (("combine_inside_concat", g1), ("concat_of_concats", g2), ("concat_then_combine", g3)):
                require(pairs_of(g_) == exp_pairs, "combined.bracketing." + tag_, lambda: "chunks combined as %s (order %r, split after %d) hold %r, expected %r" % (tag_, order, cut, pairs_of(g_), exp_pairs))
        policy = KPerSamplePlatePolicy(case["policy_k"]) if case["policy_k"] else None

        def check_select(pol, batch_ids, tag):
            """select on the SAME combined holder; returns (allowed, chosen id or None)"""
            bset = set(batch_ids)
            cands = [u for u in unobs if u not in bset]
            if pol is None:
                allowed_ = list(cands)
            else:
                al = pol.filter_eligible_plates(batch_plates=[plates[b_] for b_ in sorted(bset)], unobserved_plates=[plates[u] for u in cands], rng=np.random.default_rng(1))
                allowed_ = sorted(int(p_.plate_id) for p_ in al)
            allowed_ = [a_ for a_ in allowed_ if a_ in set(candidates)]  # only plates that were scored can be chosen
            if pol is not None and len(allowed_) != len(al):
                return allowed_, None  # the policy allows a plate without a score: outside this property's precondition
            chosen_, _kind = S.call_with_container(lambda b_: select_next_plate(scores=combined, screen=screen, policy=pol, batch_plate_ids=b_, rng=np.random.default_rng(2)), batch_ids, S.CONTAINERS[(case["order_seed"] // 3 + len(batch_ids)) % len(S.CONTAINERS)])
            if not allowed_:
                require(chosen_ is None, tag + ".none_iff_nothing_allowed", lambda: "plate %r returned although no plate is allowed" % (None if chosen_ is None else int(chosen_.plate_id)))
                return allowed_, None
            require(chosen_ is not None, tag + ".returns_when_allowed", lambda: "nothing returned although plates %r are allowed" % allowed_)
            cid_ = int(chosen_.plate_id)
            require(cid_ in unobs, tag + ".unobserved", lambda: "selected plate %d is observed" % cid_)
            require(cid_ not in bset, tag + ".not_in_batch", lambda: "selected plate %d is already in the batch %r" % (cid_, list(batch_ids)))
            require(cid_ in allowed_, tag + ".allowed", lambda: "selected plate %d not allowed by the policy (allowed %r)" % (cid_, allowed_))
            best_ = min(score_of[a_] for a_ in allowed_)
            require(score_of[cid_] <= best_, tag + ".minimum", lambda: "selected plate %d has score %r but allowed plate scores are %r" % (cid_, score_of[cid_], {a_: score_of[a_] for a_ in allowed_}))
            require(np.array_equal(np.asarray(chosen_.selection_vector), np.asarray(plates[cid_].selection_vector)), tag + ".plate_rows", "returned plate object does not select that plate's rows")
            return allowed_, cid_

        allowed, first_choice = check_select(policy, list(batch), "select")
        # the same holder is asked again with other eligible sets: without the policy, and with the first choice added to the batch
        check_select(None, list(batch), "select_again_without_policy")
        if first_choice is not None:
            check_select(policy, list(batch) + [first_choice], "select_again_next_in_batch")
            check_select(policy, list(batch), "select_repeat")
        kept = sorted((int(p_), float(s_)) for p_, s_ in zip(combined.plate_ids[: combined.current_index], combined.scores[: combined.current_index]))
        require(kept == exp_pairs, "combined.unchanged_by_selection", lambda: "the combined scores changed while plates were selected from them: %r -> %r" % (exp_pairs, kept))

        if case["cli"]:
            sfile = tmp.fresh("screen.h5")
            tfile = tmp.fresh("thetas.h5")
            dfile = tmp.fresh("dist.h5")
            paths += [sfile, tfile, dfile]
            screen.save_h5(sfile)
            th = S.build_holder([{"kind": "additive", "W": [[0.0]] * sc["ns"], "W0": [0.0] * sc["ns"], "V2": [[0.0]] * sc["nt"], "V1": [[0.0]] * sc["nt"], "V0": [0.0] * sc["nt"], "alpha": float(i), "precision": 1.0} for i in range(3)])
            th.save_h5(tfile)
            full = ChunkedDistanceMatrix(size=3)
            for i in range(3):
                for j in range(i):
                    full.add_value(i, j, 1.0)
            full.save(dfile)
            cfiles = []
            for c in range(n_chunks):
                out = tmp.fresh("scores.h5" if case["order_seed"] % 3 == 1 else "cli_scores_%d.h5" % c, own_dir=case["order_seed"] % 3 == 1)  # (a third: equal base names)
                paths.append(out)
                argv = ["--data", sfile, "--thetas", tfile, "--distance-matrix", dfile, "--n-chunks", n_chunks, "--chunk-index", c, "--scorer", "SizeScorer", "--output", out, "--seed", 3]
                if batch:
                    argv += ["--batch-plate-ids"] + list(batch)
                if case.get("xproc"):
                    ok_, text_ = xproc.cli("calculate_scores", argv, hashseed=101 + 17 * c + case["order_seed"])
                    require(ok_, "cli.xproc_chunk_failed", lambda: "calculate_scores for chunk %d of %d in its own process failed: %s" % (c, n_chunks, text_[-600:]))
                else:
                    run_cli("calculate_scores", argv, verbose=(case["order_seed"] + c) % 2 == 1)
                cfiles.append(out)
            reloaded = Screen_load(sfile)
            allh = ChunkedScoresHolder.concat([ChunkedScoresHolder.load_h5(f) for f in cfiles])
            got = sorted((int(p), float(s)) for p, s in zip(allh.plate_ids[: allh.current_index], allh.scores[: allh.current_index]))
            exp = []
            for pid in candidates:
                union = np.asarray(plates[pid].selection_vector) | batch_rows
                exp.append((pid, float(len(set(_conditions(screen, union)))) if batch else float(int(np.sum(plates[pid].selection_vector)))))
            require(got == sorted(exp), "cli.size_scores", lambda: "calculate_scores(SizeScorer) stored %r, expected distinct-condition counts %r (batch %r)" % (got, sorted(exp), batch))
            out = tmp.fresh("selected_plate")
            paths.append(out)
            argv = ["--data", sfile, "--scores"] + [cfiles[i] for i in order] + ["--output", out, "--seed", 5]
            if batch:
                argv += ["--batch-plate-id"] + list(batch)
            if case["policy_k"]:
                argv += ["--policy", "KPerSamplePlatePolicy", "--policy-param", "k=%d" % case["policy_k"]]
            run_cli("select_next_plate", argv)
            txt = open(out).read().strip()
            size_of = dict(exp)
            if not allowed:
                require(txt == "-1", "cli.select_minus_one", lambda: "selected_plate file contains %r although nothing is allowed" % txt)
            else:
                require(txt.lstrip("-").isdigit() and int(txt) in allowed, "cli.select_allowed", lambda: "selected_plate file contains %r, allowed %r" % (txt, allowed))
                require(size_of[int(txt)] <= min(size_of[a] for a in allowed), "cli.select_minimum", lambda: "CLI selected %s with size score %r, allowed sizes %r" % (txt, size_of[int(txt)], {a: size_of[a] for a in allowed}))
    finally:
        tmp.cleanup(*paths)

    labels = ["policy" if case["policy_k"] else "no-policy", "cli" if case["cli"] else "api"] + (["one-process-per-chunk"] if case.get("xproc") else []) + (["wide-conditions-at-table-boundary"] if "wide" in case else [])
    if not unobs:
        labels.append("all-observed")
    if n_chunks > len(candidates):
        labels.append("more-chunks-than-candidates")
    ties = bool(allowed) and sum(1 for a in allowed if score_of[a] == min(score_of[x] for x in allowed)) >= 2
    if ties:
        labels.append("ties-at-minimum")
    if batch:
        labels.append("batch")
    return {"nontrivial": (n_chunks >= 2 and bool(batch)) or ties or n_chunks > len(candidates) or bool(case.get("xproc") and n_chunks >= 2), "labels": labels}


def Screen_load(path):
    from batchie.data import Screen

    return Screen.load_h5(path)
