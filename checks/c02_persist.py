"""C02 - screen and experiment-space persistence is lossless."""
import numpy as np
from hypothesis import strategies as st

from vf import strategies as S
from vf import tmp
from vf.engine import Violation, require

ID = "C02"
LEVEL = "exploration"
TECHNIQUE = "Hypothesis-generated screens, k-fold save/load round trip compared observable-by-observable (bit patterns for floats), fixed-point check, same for ExperimentSpace"
RULE = (
    "screens (>=1 row, arity 1..3) with unicode/empty/unequal-length names, '' control, any plate-atomic mask, observations "
    "incl. NaN/denormal/-0.0/inf behind and in front of the mask; half of them sub-screens carrying the mappings of a strict "
    "superset; 1..3 consecutive save/load cycles, in half the cases onto a path that already holds an archive of exactly the same shapes with shorter names (or of the same rows with smaller mappings); 4% of the cases are long screens (1000..9001 rows, thorough tier also 65537/70001; up to 20000 treatment names, 5000 samples, 4500 plates) whose longest and multi-byte names sit at drawn, mostly late, positions; ExperimentSpace.from_screen saved/loaded too. Non-trivial = mapping strictly "
    "larger than the rows' own encoding, or a non-ASCII or empty name; afterwards the same object is changed in place (set_observed, Plate.merge), saved and loaded again. distinct = distinct case JSON."
    ' Also: supplied mappings numbered by hand (ids and entries in no particular order) in a third of the cases, and fixed cases in which the archive is written, read and re-written by separate interpreter processes with different string-hash salts.'
    ' Also: one lineage saved and loaded 800 (thorough 2500) times in a row; in the two-cycle cases every third write request of the save fails in turn with ENOSPC over an older archive (a save that returns normally must have saved).'
    ' Occupied paths hold, in half of those cases, the signed-zero twin of the screen (equal under ==, other bit patterns).'
    ' One round trip in six uses a path spelled through a symbolic link and "..". Neighbour files of the archive (foo.tmp.h5, foo.h5~, ...) must survive every save.'
)
ASSUMPTIONS = [
    "0-row screens are excluded: Screen.save_h5 refuses them (TypeError from np.char.encode) - a refusal, not a lossy round trip",
    "names contain no NUL and no surrogates; the control name is storable as an HDF5 attribute",
    "h5py/HDF5 store float64, int64 and bool arrays bit-exactly (trusted)",
]


def budgets(tier):
    if tier == "quick":
        return {"examples": 700, "max_s": 100, "shrink_s": 20, "shards": 1}
    return {"examples": 2500, "max_s": 700, "shrink_s": 90, "shards": 16}


@st.composite
def _long(draw, sizes=(4095, 4096, 4097, 5000, 8192, 8193, 9001)):
    """a long screen, described by parameters (rows are built in _long_sc): thousands of rows, and the longest / the only
    multi-byte names of each kind sit at drawn positions (often late in the arrays)"""
    n = draw(st.one_of(st.sampled_from(sizes), st.integers(1000, 9000)))
    return {
        "n_rows": n,
        "arity": draw(st.sampled_from([1, 2, 2, 3])),
        "n_names": draw(st.sampled_from([3, 50, 3000, 20000])),
        "n_samples": draw(st.sampled_from([2, 40, 5000])),
        "n_plates": draw(st.sampled_from([2, 30, 4500])),
        # (kind, relative position in [0,1], extra length, suffix)
        "special": draw(
            st.lists(
                st.tuples(st.sampled_from(["t", "s", "p"]), st.sampled_from([0.0, 0.5, 0.9, 0.999, 1.0]), st.integers(1, 40), st.sampled_from(["-resistant", "\u00fc\u00df", "\u4e2d", ""])),
                min_size=1,
                max_size=4,
            )
        ),
        "control": draw(st.sampled_from(["", "DMSO"])),
    }


def _long_sc(g):
    n, a = g["n_rows"], g["arity"]
    rows = []
    for i in range(n):
        rows.append(
            {
                "s": "s%d" % (i % g["n_samples"]),
                "p": "p%d" % ((i // 3) % g["n_plates"]),
                "t": ["t%d" % ((i * a + j) % g["n_names"]) for j in range(a)],
                "d": [0.5 * (1 + (i + j) % 3) for j in range(a)],
                "o": 0.25 + (i % 7) / 16.0,
            }
        )
    for kind, pos, extra, suffix in g["special"]:
        i = min(n - 1, int(pos * (n - 1)))
        if kind == "t":
            rows[i]["t"][-1] = rows[i]["t"][-1] + "x" * extra + suffix
        else:
            # every row of that sample / plate is renamed, so the plate stays one plate
            old, new_ = rows[i][kind], rows[i][kind] + "x" * extra + suffix
            for r in rows[i:] if pos > 0 else rows:
                if r[kind] == old:
                    r[kind] = new_
    observed = sorted({r["p"] for r in rows[: n // 2 : 5]})
    return {"arity": a, "control": g["control"], "rows": rows, "observed": observed}


@st.composite
def _case(draw):
    if draw(st.integers(0, 24)) == 0:
        return {"long": draw(_long()), "cycles": 1, "superset": False}
    sc = draw(S.screen_case(min_rows=1, max_rows=12, obs=S.any_obs))
    case = {"screen": sc, "cycles": draw(st.integers(1, 3)), "superset": draw(st.booleans()), "occupied": draw(st.booleans()), "synonym": draw(st.integers(0, 3)) == 0, "hand": draw(st.one_of(st.none(), st.none(), st.tuples(st.integers(1, 5), st.booleans())))}
    if case["superset"]:
        case["extra"] = draw(S.screen_case(arity=sc["arity"], control=sc["control"], min_rows=1, max_rows=6, obs=S.any_obs))["rows"]
    return case


def strategy(tier):
    return _case()


def exhaustive(tier):
    # fixed long screens: block sizes 2**12 and 2**16 crossed, the longest names in the last rows
    sizes = [4097, 9000] if tier == "quick" else [4097, 9000, 65537, 70001]
    for c in _xproc_cases(tier):
        yield c
    # one lineage saved and loaded many hundred times in a row (each save is made from the screen the previous load returned)
    yield {"chain": 800 if tier == "quick" else 2500, "seed": 3}
    for n in sizes:
        yield {"long": {"n_rows": n, "arity": 2, "n_names": 20000, "n_samples": 5000, "n_plates": 4500, "special": [["t", 1.0, 9, "-liposomal"], ["s", 0.999, 10, "-resistant"], ["p", 0.999, 3, "\u00fc"]], "control": "DMSO"}, "cycles": 1, "superset": False}


def _xproc_cases(tier):
    # one process writes the archive, another one (another string-hash salt, as every pipeline stage has) reads it: screens whose
    # supplied mappings are numbered by hand (ids in no particular order, entries listed in no particular order, conditions the
    # rows do not use) - the constructor follows such a mapping verbatim, so persistence has to keep it verbatim
    n = 2 if tier == "quick" else 6
    for k in range(n):
        rows = []
        for i in range(5 + 3 * k):
            rows.append({"s": ["HT-29", "A549", "a549", "U2OS", "\u00e4-line"][(i * 3 + k) % 5], "p": "p%d" % (i % 3), "t": ["drug%d" % ((i + k) % 4), ["drug%d" % ((2 * i + 1) % 4), "DMSO"][i % 3 == 0]], "d": [[1.0, 0.1, 10.0][i % 3], [2.5, 0.0][i % 3 == 0] if i % 3 == 0 else [2.5, 0.3][i % 2]], "o": 0.1 + 0.05 * i})
        yield {"xproc": {"arity": 2, "control": "DMSO", "rows": rows, "observed": ["p0"], "ns": 5, "nt": 16, "layout": None}, "rotate": 1 + k, "reverse": k % 2 == 0, "extra": k % 3 != 2, "hashseeds": [11 + k, 977 + 13 * k]}


def _xproc_screen(sc, rotate, reverse, extra):
    """the hand-numbered screen of an xproc case; built the same way by the writing and by the comparing process"""
    base = S.build_screen(sc)
    return _hand_numbered(sc, base.treatment_mapping, base.sample_mapping, rotate, reverse, extra)


def _hand_numbered(sc, tm, sm, rotate, reverse, extra):
    tn, td, ti = [np.asarray(x) for x in tm]
    sn, si = [np.asarray(x) for x in sm]
    tn, sn = tn.astype(str), sn.astype(str)
    if extra:
        nxt = int(ti.max()) + 1 if len(ti) else 0
        tn, td, ti = np.append(tn, ["zz-unused", "aa-unused"]), np.append(td, [4.0, 0.25]), np.append(ti, [nxt, nxt + 1])
        sn, si = np.append(sn, ["0-unused-sample"]), np.append(si, [int(si.max()) + 1 if len(si) else 0])
    nt = int(ti.max()) + 1 if len(ti) and ti.max() >= 0 else 0
    ti = np.where(ti >= 0, (ti + rotate) % max(nt, 1), ti)
    si = (si * (rotate + 1) + 1) % len(si) if np.gcd(rotate + 1, len(si)) == 1 else (si + rotate) % len(si)
    if reverse:
        tn, td, ti, sn, si = tn[::-1].copy(), td[::-1].copy(), ti[::-1].copy(), sn[::-1].copy(), si[::-1].copy()
    return S.build_screen(sc, treatment_mapping=(tn, td, ti), sample_mapping=(sn, si))


def _check_xproc(case):
    from batchie.data import Screen
    from vf import xproc

    args = {"sc": case["xproc"], "rotate": case["rotate"], "reverse": case["reverse"], "extra": case["extra"]}
    want = _xproc_screen(**args)
    own = S.build_screen(case["xproc"])
    require(not S.mapping_equal(want.treatment_mapping, own.treatment_mapping) and not S.mapping_equal(want.sample_mapping, own.sample_mapping), "harness", "hand-numbered mappings equal the derived ones")
    p1, p2 = tmp.fresh("xproc_a.h5"), tmp.fresh("xproc_b.h5", odd=case["rotate"])
    try:
        ok, text = xproc.python("from checks import c02_persist as c\nc._xproc_screen(**params['args']).save_h5(params['path'])\n", case["hashseeds"][0], args=args, path=p1)
        require(ok, "xproc.save_failed", lambda: "saving the screen in its own process failed: %s" % text[-600:])
        compare_screens(want, Screen.load_h5(p1), "saved_by_another_process")
        ok, text = xproc.python("from batchie.data import Screen\nScreen.load_h5(params['src']).save_h5(params['dst'])\n", case["hashseeds"][1], src=p1, dst=p2)
        require(ok, "xproc.resave_failed", lambda: "loading and saving the archive in a third process failed: %s" % text[-600:])
        compare_screens(want, Screen.load_h5(p2), "passed_through_two_other_processes")
    finally:
        tmp.cleanup(p1, p2)
    return {"nontrivial": True, "labels": ["one-process-per-step", "hand-numbered-mappings"]}


def _check_chain(case):
    from batchie.data import Screen

    rows = [{"s": ["HT-29", "A549", "U2OS"][i % 3], "p": "p%d" % (i % 4), "t": ["drug%d" % (i % 5), ["drug%d" % ((i + 2) % 5), "DMSO"][i % 4 == 0]], "d": [[1.0, 0.1][i % 2], 0.0 if i % 4 == 0 else 2.5], "o": 0.05 * i} for i in range(14)]
    s0 = S.build_screen({"arity": 2, "control": "DMSO", "rows": rows, "observed": ["p0", "p2"], "layout": None})
    a, b = tmp.fresh("chain_a.h5"), tmp.fresh("chain_b.h5")
    cur = s0
    try:
        for k in range(case["chain"]):
            p = a if k % 2 == 0 else b
            cur.save_h5(p)
            cur = Screen.load_h5(p)
            if k % 50 == 49 or k < 3:
                compare_screens(s0, cur, "chain.cycle%d" % (k + 1))
        compare_screens(s0, cur, "chain.last_cycle")
    finally:
        tmp.cleanup(a, b)
    return {"nontrivial": True, "labels": ["long-save-load-chain"], "counts": {"chain_cycles": case["chain"]}}


def observables(s):
    return {
        "treatment_names": ("str", np.asarray(s.treatment_names)),
        "treatment_doses": ("bits", np.asarray(s.treatment_doses)),
        "sample_names": ("str", np.asarray(s.sample_names)),
        "plate_names": ("str", np.asarray(s.plate_names)),
        "observations": ("bits", np.asarray(s.observations)),
        "observation_mask": ("eq", np.asarray(s.observation_mask)),
        "treatment_ids": ("eq", np.asarray(s.treatment_ids)),
        "sample_ids": ("eq", np.asarray(s.sample_ids)),
        "plate_ids": ("eq", np.asarray(s.plate_ids)),
    }


def _first_difference(x, y):
    if x.shape != y.shape or x.size <= 40:
        return "%r -> %r" % (x.tolist() if x.size <= 40 else x.shape, y.tolist() if y.size <= 40 else y.shape)
    xs, ys = [repr(v) for v in x.ravel().tolist()], [repr(v) for v in y.ravel().tolist()]
    bad = [i for i in range(len(xs)) if xs[i] != ys[i]]
    return "%d of %d entries differ, first at flat position %d: %s -> %s" % (len(bad), len(xs), bad[0], xs[bad[0]], ys[bad[0]]) if bad else "dtype %s -> %s" % (x.dtype, y.dtype)


def compare_screens(a, b, prefix, plate_mapping=True):
    require(type(b.control_treatment_name) in (str, np.str_) and str(a.control_treatment_name) == str(b.control_treatment_name), prefix + ".control_name", lambda: "control name %r -> %r" % (a.control_treatment_name, b.control_treatment_name))
    oa, ob = observables(a), observables(b)
    for k, (kind, x) in oa.items():
        y = ob[k][1]
        if kind == "str":
            ok = S.same_str(x, y)
        elif kind == "bits":
            ok = S.same_bits(x, y)
        else:
            ok = x.shape == y.shape and np.array_equal(x, y) and (x.dtype.kind == y.dtype.kind)
        require(ok, prefix + "." + k, lambda: "%s changed: %s" % (k, _first_difference(x, y)))
    require(S.mapping_equal(a.treatment_mapping, b.treatment_mapping), prefix + ".treatment_mapping", lambda: "treatment mapping changed: %r -> %r" % ([list(map(str, a.treatment_mapping[0])), list(a.treatment_mapping[1]), list(a.treatment_mapping[2])], [list(map(str, b.treatment_mapping[0])), list(b.treatment_mapping[1]), list(b.treatment_mapping[2])]))
    require(S.mapping_equal(a.sample_mapping, b.sample_mapping), prefix + ".sample_mapping", lambda: "sample mapping changed: %r -> %r" % ([list(map(str, a.sample_mapping[0])), list(a.sample_mapping[1])], [list(map(str, b.sample_mapping[0])), list(b.sample_mapping[1])]))
    if plate_mapping:
        require(S.mapping_equal(a.plate_mapping, b.plate_mapping), prefix + ".plate_mapping", "plate mapping changed")


def _zero_twin(s, control):
    """the same screen with the sign of every zero observation and zero dose flipped (equal under ==, different bit patterns);
    None when the screen has no zero to flip"""
    from batchie.data import Screen

    ob, td = np.array(s.observations, dtype=float), np.array(s.treatment_doses, dtype=float)
    if not (np.any(ob == 0) or np.any(td == 0)):
        return None
    ob2, td2 = np.where(ob == 0, -ob, ob), np.where(td == 0, -td, td)
    try:
        return Screen(treatment_names=np.array(s.treatment_names), treatment_doses=td2, observations=ob2, observation_mask=np.array(s.observation_mask), sample_names=np.array(s.sample_names), plate_names=np.array(s.plate_names), control_treatment_name=control)
    except ValueError:
        return None


def _short_sibling(s, control):
    """another screen of exactly the same shapes (rows, arity, mapping sizes) whose names are all SHORTER: every distinct name is
    renamed to a one- or two-letter code (control name kept); what an output path may hold from an earlier, different run"""
    from batchie.data import Screen

    def renamer(values, keep=()):
        codes = {}
        for v in sorted({str(x) for x in np.asarray(values).ravel()}):
            codes[v] = v if v in keep else "%s" % (chr(97 + len(codes) % 26) + ("" if len(codes) < 26 else str(len(codes) // 26)))
        return lambda a: np.array([codes[str(x)] for x in np.asarray(a).ravel()], dtype=str).reshape(np.asarray(a).shape)

    tn, td, ti = s.treatment_mapping
    sn, si = s.sample_mapping
    rt = renamer(np.concatenate([np.asarray(tn).ravel(), np.asarray(s.treatment_names).ravel()]), keep=(str(control),))
    rs = renamer(np.concatenate([np.asarray(sn).ravel(), np.asarray(s.sample_names).ravel()]))
    rp = renamer(s.plate_names)
    return Screen(
        treatment_names=rt(s.treatment_names),
        treatment_doses=np.asarray(s.treatment_doses).copy(),
        sample_names=rs(s.sample_names),
        plate_names=rp(s.plate_names),
        observations=np.asarray(s.observations).copy(),
        observation_mask=np.asarray(s.observation_mask).copy(),
        control_treatment_name=control,
        treatment_mapping=(rt(tn), np.asarray(td).copy(), np.asarray(ti).copy()),
        sample_mapping=(rs(sn), np.asarray(si).copy()),
    )


def check_case(case):
    from batchie.data import Screen, ExperimentSpace

    if "xproc" in case:
        return _check_xproc(case)
    if "chain" in case:
        return _check_chain(case)

    sc = _long_sc(case["long"]) if "long" in case else case["screen"]
    strict = False
    if case["superset"]:
        sup = S.build_screen(dict(sc, observed=[]), rows=sc["rows"] + case["extra"])
        s0 = S.build_screen(sc, treatment_mapping=sup.treatment_mapping, sample_mapping=sup.sample_mapping)
        own = S.build_screen(sc)
        strict = len(sup.treatment_mapping[0]) > len(own.treatment_mapping[0]) or len(sup.sample_mapping[0]) > len(own.sample_mapping[0])
    else:
        s0 = S.build_screen(sc)
    if case.get("hand") and "long" not in case:
        # the same rows under a mapping numbered by hand (ids and entries in no particular order)
        s0 = _hand_numbered(sc, s0.treatment_mapping, s0.sample_mapping, case["hand"][0], case["hand"][1], False)
    synonym = False
    if case.get("synonym") and "long" not in case and sc["rows"]:
        # a supplied sample mapping that lists a synonym: two names, one id (the constructor accepts it; the names are data and
        # must survive persistence as they are)
        sn, si = [np.asarray(x) for x in s0.sample_mapping]
        x = sc["rows"][0]["s"]
        new = x + "~syn"
        if new not in set(str(v) for v in sn):
            rows2 = [dict(r, s=new) if (r["s"] == x and i % 2 == 1) else r for i, r in enumerate(sc["rows"])]
            if len(rows2) == 1:
                rows2 = [dict(rows2[0], s=new)]
            xid = int(si[[str(v) for v in sn].index(x)])
            try:
                s_syn = S.build_screen(dict(sc, rows=rows2), treatment_mapping=s0.treatment_mapping, sample_mapping=(np.append(sn.astype(str), new), np.append(si, xid)))
            except ValueError:
                s_syn = None  # such a mapping refused: nothing to persist
            if s_syn is not None and any(r["s"] == new for r in rows2):
                s0, synonym = s_syn, True
    cur = s0
    paths = []
    try:
        for k in range(case["cycles"]):
            # (one case in six: the path is spelled through a symbolic link to a directory, followed by "..")
            p = tmp.fresh("screen.h5") if (case["cycles"] + len(sc["rows"]) + k) % 6 else tmp.through_symlink("screen.h5")
            paths.append(p)
            if k == 0 and case["superset"]:
                own.save_h5(p)  # the path already holds another screen (same rows, its own smaller mappings): saving replaces it
            elif case.get("occupied") and "long" not in case:
                sib = None
                if (case["cycles"] + len(sc["rows"])) % 2 == 0 and not case.get("hand") and not synonym:
                    sib = _zero_twin(cur, sc["control"])  # ... an archive that equals this screen under == and differs in bits (signs of zeros)
                if sib is None:
                    try:
                        sib = _short_sibling(cur, sc["control"])
                    except ValueError:
                        sib = None  # (renaming collides with the control rule for this screen: no sibling)
                if sib is not None:
                    sib.save_h5(p)  # ... or an archive of exactly the same shapes with shorter names
            near = tmp.neighbours(p)  # working-file-like neighbours of the archive: a save leaves them alone
            cur.save_h5(p)
            bad_ = tmp.changed_neighbours(near)
            require(not bad_, "save.touches_other_files", lambda: "saving the screen changed other files of the directory: %r" % (bad_,))
            nxt = Screen.load_h5(p)
            compare_screens(s0, nxt, "roundtrip%d" % (k + 1))
            cur = nxt
        # the same screen OBJECT is saved again after in-place changes (a reveal through set_observed, a plate merge):
        # what is loaded must be the screen as it is now, not as it was at the first save
        names = sorted(set(str(x) for x in s0.plate_names))
        status = {p_: bool(np.asarray(s0.observation_mask)[np.asarray(s0.plate_names) == p_][0]) for p_ in names}
        unobs = [p_ for p_ in names if not status[p_]]
        mutated = False
        if unobs:
            sel = np.asarray(s0.plate_names) == unobs[case["cycles"] % len(unobs)]
            s0.set_observed(sel, np.linspace(0.25, 0.75, int(sel.sum())))
            status[unobs[case["cycles"] % len(unobs)]] = True
            mutated = True
        same = [p_ for p_ in names if status[p_] == status[names[0]]]
        if len(same) >= 2:
            pid = {str(k): int(v) for k, v in zip(*s0.plate_mapping)}
            s0.get_plate(pid[same[0]]).merge(s0.get_plate(pid[same[1]]))
            mutated = True
        if mutated:
            p = tmp.fresh("screen_mutated.h5")
            paths.append(p)
            s0.save_h5(p)
            again = Screen.load_h5(p)
            # Plate.merge re-encodes plate ids but leaves the in-memory plate mapping stale; the mapping is therefore not compared here
            compare_screens(s0, again, "resave_after_inplace_change", plate_mapping=False)
        if case["cycles"] == 2 and not case["superset"] and "long" not in case:
            # the save with a storage failure injected into each of its write requests in turn, over an older archive: a save
            # that returns normally has saved
            from vf import iofault

            def fault_paths(k):
                q = tmp.fresh("fault_%d.h5" % k)
                paths.append(q)
                try:
                    _short_sibling(s0, sc["control"]).save_h5(q)
                except ValueError:
                    pass
                return q

            nreq, ret_, rais_ = iofault.save_under_faults(s0.save_h5, lambda q: compare_screens(s0, Screen.load_h5(q), "save_under_faults", plate_mapping=False), fault_paths, require, "save_under_faults", "Screen.save_h5", points=range(case.get("hand", [0])[0] % 3 if case.get("hand") else 0, 64, 3))
        # experiment space
        es = ExperimentSpace.from_screen(s0)
        p = tmp.fresh("space.h5")
        paths.append(p)
        if case.get("occupied") and "long" not in case:
            try:
                ExperimentSpace.from_screen(_short_sibling(s0, sc["control"])).save_h5(p)
            except ValueError:
                pass
        es.save_h5(p)
        es2 = ExperimentSpace.load_h5(p)
        require(S.mapping_equal(es.treatment_mapping, es2.treatment_mapping), "space.treatment_mapping", "experiment space treatment mapping changed by save/load")
        require(S.mapping_equal(es.sample_mapping, es2.sample_mapping), "space.sample_mapping", "experiment space sample mapping changed by save/load")
        require(str(es.control_treatment_name) == str(es2.control_treatment_name), "space.control_name", "experiment space control name changed")
        require(es.n_unique_treatments == es2.n_unique_treatments and es.n_unique_samples == es2.n_unique_samples, "space.sizes", "experiment space sizes changed")
        p2 = tmp.fresh("space2.h5")
        paths.append(p2)
        es2.save_h5(p2)
        es3 = ExperimentSpace.load_h5(p2)
        require(S.mapping_equal(es2.treatment_mapping, es3.treatment_mapping) and S.mapping_equal(es2.sample_mapping, es3.sample_mapping), "space.fixed_point", "second experiment-space save/load is not a fixed point")
    finally:
        tmp.cleanup(*paths)
    allnames = [r["s"] for r in sc["rows"]] + [r["p"] for r in sc["rows"]] + [t for r in sc["rows"] for t in r["t"]]
    exotic = any((not n.isascii()) or n == "" for n in allnames)
    labels = ["cycles=%d" % case["cycles"]]
    if "long" in case:
        labels.append("rows>=%d" % (2 ** int(np.log2(len(sc["rows"])))))
    if synonym:
        labels.append("synonym-in-sample-mapping")
    if strict:
        labels.append("strict-superset-mapping")
    if exotic:
        labels.append("non-ascii-or-empty-name")
    if any(isinstance(r["o"], float) and r["o"] != r["o"] for r in sc["rows"]):
        labels.append("nan-observation")
    return {"nontrivial": strict or exotic, "labels": labels}
