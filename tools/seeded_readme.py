#!/venv/bin/python
"""Regenerate seeded/README.md from the meta.json files."""
import glob
import json
import os

ROOT = os.path.dirname(os.path.dirname(os.path.abspath(__file__)))
rows = []
for d in sorted(glob.glob(os.path.join(ROOT, "seeded", "*"))):
    mp = os.path.join(d, "meta.json")
    if not os.path.exists(mp):
        continue
    m = json.load(open(mp))
    rows.append((os.path.basename(d), m))
with open(os.path.join(ROOT, "seeded", "README.md"), "w") as f:
    f.write("# Independently seeded breaking changes\n\n")
    f.write(
        "Each directory holds a change written by a fresh sub-agent that saw only the text of one property and a scratch worktree of /repo "
        "(nothing from /verif): `patch.diff`, the agent's demonstration `demo.py` (exit 1 with the change, 0 without) and `meta.json`.\n"
        "Every change was confirmed by me with `tools/try_seeded.sh <name> <dir>` in a scratch worktree (patch applies, the 151 repository tests "
        "pass, demo fails with / passes without the change) and the property's quick check was then run against that worktree through `BATCHIE_REPO`; "
        "/repo itself was never modified.\n\n"
    )
    n = len(rows)
    outright = sum(1 for _, m in rows if m.get("check_result", "").startswith("caught") and "after" not in m.get("check_result", "") and "first" not in m.get("check_result", ""))
    undetected = [name for name, m in rows if m.get("check_result", "").upper().startswith("NOT DETECTED")]
    f.write("%d changes; %d caught by the checks as they stood, %d after the strengthening named in the last column (each of those misses came from a generator narrower than the property's quantifier, never from a loosened oracle), %d not detected%s.\n\n" % (n, outright, n - outright - len(undetected), len(undetected), (" (" + ", ".join(undetected) + ": see its row and DESIGN.md 5.6)") if undetected else ""))
    f.write("| change | property | what it needs to manifest | result | check outcome | strengthening |\n|---|---|---|---|---|---|\n")
    for name, m in rows:
        esc = lambda s: str(s).replace("|", "\\|").replace("\n", " ")
        f.write("| %s | %s | %s | %s | %s | %s |\n" % (name, m.get("property"), esc(m.get("needs_to_manifest", ""))[:300], esc(m.get("check_result", "")), esc(m.get("what_i_ran", "").split("->", 1)[-1])[:300], esc(m.get("strengthening", ""))[:200]))
print("README written: %d rows" % len(rows))
