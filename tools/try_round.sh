#!/bin/sh
# tools/try_round.sh <dir with Cxx subdirs> [ids...]: confirm and check every finished seeded change of a round, 3 at a time
base=$1; shift
ids=${*:-$(ls $base)}
for i in $ids; do [ -f $base/$i/meta.json ] && echo $i; done | xargs -P 3 -I{} sh -c "VERIF_DIR=${VERIF_DIR:-/verif} /verif/tools/try_seeded.sh {} $base/{} > /tmp/try_{}.log 2>&1; echo \"{}: \$(grep -E 'demo rc|passed|failed' /tmp/try_{}.log | tr '\n' ' ') | \$(grep -E 'tier=' /tmp/try_{}.log | tail -1 | cut -c1-60) | \$(grep -E '^violation|HARNESS' /tmp/try_{}.log | head -1 | cut -c1-220)\""
