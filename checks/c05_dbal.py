"""C05 - a plate's DBAL score depends on that plate alone and equals the direct estimator."""
import itertools
import math

import numpy as np
from hypothesis import strategies as st

from vf import strategies as S
from vf.engine import Violation, require

ID = "C05"
LEVEL = "exploration"
TECHNIQUE = "Hypothesis-generated ragged plate sets compared with a loop-by-loop float64 reference estimator (differential) plus metamorphic re-groupings/permutations"
RULE = (
    "(scorer path: also candidate plates combined with an already selected plate, i.e. overlapping scored subsets, at three batch sizes) "
    "n=3..32 posterior samples (32 = largest full enumeration under the default budget of 5000) with all C(n,3) triples enumerated, 1..6 plates of 1..8 experiments (ragged; size-1 and single-plate cases "
    "forced), means in [-30,30] (occasionally 1e3; in a third of the plates a common level of 1e2, 1e4 or +-1e6 plus differences in [-3,3]), variances 10^U(-3,3), symmetric non-negative distance matrices (zero diagonal; for the function entry points in a third of the cases a non-zero one) with exact "
    "zeros, distance_factor in {1,.5,2}; entry points: heteroscedastic, homoscedastic, vectorized (harness-built NaN padding) and "
    "GaussianDBALScorer.score on real plates with shipped and a harness-defined heteroscedastic Theta, max_chunk 1..7; plus re-grouping, "
    "experiment and sample permutations. Non-trivial = >=2 plates of different sizes (padding exercised) or a size-1 plate. distinct = distinct case JSON."
    ' Also: one call whose padded work array has 34 million entries (thorough: three).'
    ' Every scorer object also receives a call that fails part-way (distance matrix of another size) before it is used again.'
    ' Also: large plates with means on two scales (one sample 1e5 .. 1e7 away) through the homoscedastic and heteroscedastic entry points.'
    ' Also: plates of two screen objects of equal length in one scorer call.'
)
ASSUMPTIONS = [
    "plates have >=1 experiment; means bounded so no single term overflows (finiteness is claimed only when some triple has positive distance)",
    "agreement tolerance rtol=1e-9, atol=1e-9 (float64 re-association only)",
    "in the scorer path the reference takes means/variances from per-sample Theta.predict_* calls (their correctness is C09)",
]


def budgets(tier):
    if tier == "quick":
        return {"examples": 700, "max_s": 80, "shrink_s": 20, "shards": 1}
    return {"examples": 12000, "max_s": 700, "shrink_s": 90, "shards": 16}


_mean = st.one_of(st.floats(min_value=-30, max_value=30, allow_nan=False), st.sampled_from([0.0, 1.0, -1.0, 1e3, -1e3]))
_logvar = st.floats(min_value=-3, max_value=3, allow_nan=False)


@st.composite
def _dist(draw, n):
    vals = {}
    allzero = draw(st.integers(0, 15)) == 0
    _v = st.one_of(st.sampled_from([0.0, 1.0, 1e-12, 5.0]), st.floats(min_value=0.0, max_value=10.0, allow_nan=False))
    if n > 9 and not allzero:  # pool-based for many samples (keeps the drawn data small)
        pool = [draw(_v) for _ in range(8)]
        return {"%d,%d" % (i, j): pool[(i * 31 + j * 17) % 8] for i in range(n) for j in range(i)}
    for i in range(n):
        for j in range(i):
            if allzero:
                v = 0.0
            else:
                v = draw(st.one_of(st.sampled_from([0.0, 1.0, 1e-12, 5.0]), st.floats(min_value=0.0, max_value=10.0, allow_nan=False)))
            vals["%d,%d" % (i, j)] = v
    return vals


@st.composite
def _raw(draw):
    # up to 32 samples: C(32,3) = 4960 is the largest full enumeration under the default budget of 5000 triples
    n = draw(st.sampled_from([3, 3, 4, 4, 5, 6, 7, 8, 9, 12, 19, 20, 21, 25, 32]))
    big = n > 9
    n_pl = draw(st.sampled_from([1, 2, 3] if big else [1, 1, 2, 3, 4, 6]))
    plates = []
    for p in range(n_pl):
        e = draw(st.sampled_from([1, 2, 3] if big else [1, 1, 2, 3, 5, 8]))
        # in a third of the plates all means sit on one large common level and differ little between posterior samples
        level = draw(st.sampled_from([None, None, None, None, 100.0, 1e4, 1e6, -1e6]))
        _m = _mean if level is None else st.floats(min_value=-3, max_value=3, allow_nan=False).map(lambda x, L=level: L + x)
        if big:  # draw a small pool and index into it (keeps generation cheap for 32 x e values)
            pool_m = [draw(_m) for _ in range(6)]
            pool_v = [draw(_logvar) for _ in range(4)]
            means = [[pool_m[(3 * i + 5 * j + p) % 6] + 0.01 * i for j in range(e)] for i in range(n)]
            lv = [[pool_v[(i + 2 * j) % 4] for j in range(e)] for i in range(n)]
        else:
            means = [[draw(_m) for _ in range(e)] for _ in range(n)]
            lv = [[draw(_logvar) for _ in range(e)] for _ in range(n)]
        plates.append({"means": means, "logvar": lv})
    homo = [[draw(_logvar) for _ in range(n)] for _ in range(n_pl)] if not big else [[float((i * 7 + q) % 5 - 2) for i in range(n)] for q in range(n_pl)]
    return {
        "kind": "raw",
        "n": n,
        "plates": plates,
        "homo_logvar": homo,
        "dist": draw(_dist(n)),
        "diagonal": draw(st.sampled_from([None, None, None, 1.0, 7.5])),
        "df": draw(st.sampled_from([1.0, 1.0, 0.5, 2.0])),
        "subset": draw(st.lists(st.integers(0, n_pl - 1), min_size=1, max_size=n_pl, unique=True)),
        "perm_seed": draw(st.integers(0, 10**6)),
        "extra_budget": draw(st.sampled_from([0, 1, 1000])),
    }


@st.composite
def _scorer(draw):
    # many ragged unobserved plates, so that the scorer's internal batches (max_chunk) hold plates of different widths
    sc = draw(S.simple_screen(n_rows=(6, 30), n_plates=(3, 8), ensure_unobserved=3))
    if draw(st.integers(0, 3)) != 0:
        sc["observed"] = []
    n = draw(st.integers(3, 7))
    het = draw(st.booleans())
    thetas = [draw(S.theta_params("additive", sc["ns"], sc["nt"], D=2)) for _ in range(n)]
    return {
        "kind": "scorer",
        "screen": sc,
        "thetas": thetas,
        "het": het,
        "het_scale": [[draw(st.floats(min_value=0.1, max_value=10)) for _ in range(sc["ns"])] for _ in range(n)],
        "dist": draw(_dist(n)),
        "max_chunk": draw(st.sampled_from([1, 2, 2, 3, 3, 4, 5, 7])),
        "perm_seed": draw(st.integers(0, 10**6)),
    }


def strategy(tier):
    return st.one_of(_raw(), _raw(), _scorer())


def _dense(dist, n, diagonal=None):
    d = np.zeros((n, n))
    for k, v in dist.items():
        i, j = map(int, k.split(","))
        d[i, j] = d[j, i] = v
    if diagonal is not None:
        # a symmetric non-negative matrix whose diagonal is not zero (e.g. A + A.T as it comes): the estimator only ever uses pairs of
        # DIFFERENT samples, so the diagonal is irrelevant to it
        np.fill_diagonal(d, diagonal)
    return d


def reference_score(means, var, d, df=1.0):
    """means, var: (n, E) for ONE plate; d: (n,n). Direct, unpadded, loop over unordered triples."""
    n = means.shape[0]
    terms = []
    for i, j, k in itertools.combinations(range(n), 3):
        s = d[i, j] + d[j, k] + d[i, k]
        logd = df * math.log(s) if s > 0 else -math.inf
        t = 0.0
        for e in range(means.shape[1]):
            vi, vj, vk = var[i, e], var[j, e], var[k, e]
            alpha = vi * vj + vj * vk + vi * vk
            quad = vk * (means[i, e] - means[j, e]) ** 2 + vj * (means[i, e] - means[k, e]) ** 2 + vi * (means[j, e] - means[k, e]) ** 2
            t += -0.5 * math.log(alpha) - 0.5 * (vi * vj * vk) / (alpha * alpha) * quad
        terms.append(logd + t)
    m = max(terms)
    if m == -math.inf:
        return -math.inf
    return m + math.log(sum(math.exp(x - m) for x in terms))


def _close(a, b):
    if a == b:
        return True
    if not (math.isfinite(a) and math.isfinite(b)):
        return False
    return abs(a - b) <= 1e-9 + 1e-9 * abs(b)


def _cmp(got, ref, sub, what):
    got = [float(x) for x in got]
    require(len(got) == len(ref), sub + ".length", lambda: "%s: %d scores for %d plates" % (what, len(got), len(ref)))
    for p, (g, r) in enumerate(zip(got, ref)):
        require(_close(g, r), sub, lambda: "%s: plate %d score %r, direct estimator %r" % (what, p, g, r))


def exhaustive(tier):
    # one call whose padded work array (plates x triples x experiments) has tens of millions of entries: a tiny plate scored next to
    # a plate of thousands of experiments (one in the quick tier, about 2 GB and some seconds)
    # large plates whose predicted means live on two scales at once: a few posterior samples about 1 apart, another one 10**5 ..
    # 10**7 away (a diverged chain) - through all three function entry points
    for n_, e_, off_ in [(6, 8000, 1e6), (32, 300, 1e7)] + ([(6, 70000, 1e5), (12, 3000, 1e7), (20, 700, 1e6)] if tier != "quick" else []):
        yield {"kind": "two_scales", "n": n_, "E": e_, "offset": off_, "seed": n_ + e_}
    # the scorer object with more posterior samples than the default budget of 5000 triples covers (33 samples = 5456 triples, 34 =
    # 5984) and a budget that covers them all: every triple counts, whatever the generator
    for n_ in [33] + ([34, 36] if tier != "quick" else []):
        r_ = np.random.default_rng(n_)
        rows_ = [{"s": "s%d" % (i % 2), "p": "p%d" % (i % 3), "t": ["t%d" % (i % 2), "t%d" % ((i + 1) % 2)], "d": [1.0, 2.0], "o": 0.5} for i in range(7)]
        sc_ = {"arity": 2, "control": "ctl", "rows": rows_, "observed": [], "ns": 2, "nt": 4, "layout": None}
        th_ = [{"kind": "additive", "W": r_.normal(size=(2, 2)).tolist(), "W0": r_.normal(size=2).tolist(), "V2": r_.normal(size=(4, 2)).tolist(), "V1": r_.normal(size=(4, 2)).tolist(), "V0": r_.normal(size=4).tolist(), "alpha": 0.05 * i, "precision": float(r_.uniform(0.5, 4))} for i in range(n_)]
        yield {"kind": "scorer", "screen": sc_, "thetas": th_, "het": False, "het_scale": [[1.0, 1.0]] * n_, "dist": {"%d,%d" % (i, j): float(0.2 + ((i * 31 + j * 17) % 8) * 0.3) for i in range(n_) for j in range(i)}, "max_chunk": 2, "perm_seed": n_}
    yield {"kind": "big_tensor", "n": 31, "sizes": [3, 3800], "seed": 31}
    if tier != "quick":
        yield {"kind": "big_tensor", "n": 29, "sizes": [5, 2, 4700], "seed": 29}
        yield {"kind": "big_tensor", "n": 27, "sizes": [2, 6100, 1], "seed": 27}


def _vector_reference(m, v, d):
    """the direct estimator for one plate, vectorised over (triples x experiments) in float64"""
    n = m.shape[0]
    tr = np.array(list(itertools.combinations(range(n), 3)))
    i, j, k = tr[:, 0], tr[:, 1], tr[:, 2]
    s = d[i, j] + d[j, k] + d[i, k]
    with np.errstate(divide="ignore"):
        logd = np.log(s)
    vi, vj, vk = v[i], v[j], v[k]
    alpha = vi * vj + vj * vk + vi * vk
    quad = vk * (m[i] - m[j]) ** 2 + vj * (m[i] - m[k]) ** 2 + vi * (m[j] - m[k]) ** 2
    t = logd + np.sum(-0.5 * np.log(alpha) - 0.5 * (vi * vj * vk) / (alpha * alpha) * quad, axis=1)
    mx = np.max(t)
    return float(mx + np.log(np.sum(np.exp(t - mx))))


def _check_big_tensor(case, gd):
    n = case["n"]
    r = np.random.default_rng(case["seed"])
    d = r.uniform(0.2, 2.0, size=(n, n))
    d = d + d.T
    np.fill_diagonal(d, 0)
    means = [r.normal(scale=0.4, size=(n, e)) for e in case["sizes"]]
    var = [10.0 ** r.uniform(-0.5, 0.5, size=(n, e)) for e in case["sizes"]]
    ref = [_vector_reference(m, v, d) for m, v in zip(means, var)]
    got = [float(x) for x in gd.dbal_fast_gaussian_scoring_heteroscedastic(means, var, d, np.random.default_rng(1), max_combos=5000)]
    for p_, (g, rf) in enumerate(zip(got, ref)):
        require(_close(g, rf), "big_tensor.equals_direct", lambda: "plate %d of sizes %r scored in one call: %r, direct estimator %r" % (p_, case["sizes"], g, rf))
    alone = float(gd.dbal_fast_gaussian_scoring_heteroscedastic(means[:1], var[:1], d, np.random.default_rng(2), max_combos=5000)[0])
    require(_close(alone, got[0]), "big_tensor.independent_of_other_plates", lambda: "the small plate scores %r alone and %r next to a plate of %d experiments" % (alone, got[0], max(case["sizes"])))
    return {"nontrivial": True, "labels": ["big_tensor"], "counts": {"big_tensor_elements": len(case["sizes"]) * math.comb(n, 3) * max(case["sizes"])}}


def _check_two_scales(case, gd):
    n, e = case["n"], case["E"]
    r = np.random.default_rng(case["seed"])
    d = r.uniform(0.2, 2.0, size=(n, n))
    d = d + d.T
    np.fill_diagonal(d, 0)
    m = r.normal(scale=0.5, size=(n, e))
    m[n - 1] += case["offset"]  # one sample far away from the others
    m[0] -= 0.3 * case["offset"] if n > 8 else 0.0
    small = r.normal(scale=0.5, size=(n, 3))
    small[n - 1] += case["offset"]
    v0 = 0.7
    means, var = [small, m], [np.full((n, 3), v0), np.full((n, e), v0)]
    ref = [_vector_reference(mm_, vv_, d) for mm_, vv_ in zip(means, var)]
    outs = {
        "homoscedastic": gd.dbal_fast_gaussian_scoring_homoscedastic(means, np.full((2, n), v0), d, np.random.default_rng(1), max_combos=5000),
        "heteroscedastic": gd.dbal_fast_gaussian_scoring_heteroscedastic(means, var, d, np.random.default_rng(2), max_combos=5000),
    }
    for name, got in outs.items():
        for p_, (g, rf) in enumerate(zip([float(x) for x in got], ref)):
            require(_close(g, rf), "two_scales.%s.equals_direct" % name, lambda: "%s entry point, %d samples (one %g away from the others), plate of %d experiments: %r, direct estimator %r" % (name, n, case["offset"], means[p_].shape[1], g, rf))
    return {"nontrivial": True, "labels": ["two-scales"]}


def check_case(case):
    from batchie.scoring import gaussian_dbal as gd

    if case["kind"] == "two_scales":
        return _check_two_scales(case, gd)
    if case["kind"] == "big_tensor":
        return _check_big_tensor(case, gd)
    if case["kind"] == "raw":
        n = case["n"]
        d = _dense(case["dist"], n, case.get("diagonal"))
        df = case["df"]
        budget = math.comb(n, 3) + case["extra_budget"]
        means = [np.array(p["means"], dtype=float) for p in case["plates"]]
        var = [10.0 ** np.array(p["logvar"], dtype=float) for p in case["plates"]]
        ref = [reference_score(m, v, d, df) for m, v in zip(means, var)]
        positive = any(d[i, j] + d[j, k] + d[i, k] > 0 for i, j, k in itertools.combinations(range(n), 3))
        rng = np.random.default_rng(case["perm_seed"])
        got = gd.dbal_fast_gaussian_scoring_heteroscedastic(means, var, d, np.random.default_rng(1), max_combos=budget, distance_factor=df)
        _cmp(got, ref, "heteroscedastic.equals_direct", "heteroscedastic")
        if positive:
            require(all(math.isfinite(float(x)) for x in got), "finite", lambda: "scores %r not finite although some triple has positive distance" % (list(map(float, got)),))
        # (a) any subset / order of the other plates
        sub = case["subset"]
        got = gd.dbal_fast_gaussian_scoring_heteroscedastic([means[i] for i in sub], [var[i] for i in sub], d, np.random.default_rng(2), max_combos=budget, distance_factor=df)
        _cmp(got, [ref[i] for i in sub], "heteroscedastic.independent_of_other_plates", "plates %r scored together" % sub)
        # (c) permutation of experiments inside each plate
        perms = [rng.permutation(m.shape[1]) for m in means]
        got = gd.dbal_fast_gaussian_scoring_heteroscedastic([m[:, p] for m, p in zip(means, perms)], [v[:, p] for v, p in zip(var, perms)], d, np.random.default_rng(3), max_combos=budget, distance_factor=df)
        _cmp(got, ref, "heteroscedastic.experiment_order", "experiments permuted")
        # (d) consistent relabelling of posterior samples
        sp = rng.permutation(n)
        got = gd.dbal_fast_gaussian_scoring_heteroscedastic([m[sp] for m in means], [v[sp] for v in var], d[np.ix_(sp, sp)], np.random.default_rng(4), max_combos=budget, distance_factor=df)
        _cmp(got, ref, "heteroscedastic.sample_relabelling", "posterior samples relabelled")
        # vectorized entry point with harness-built padding
        emax = max(m.shape[1] for m in means)
        pm = np.zeros((len(means), n, emax))
        pv = np.full((len(means), n, emax), np.nan)
        for i, (m, v) in enumerate(zip(means, var)):
            pm[i, :, : m.shape[1]] = m
            pv[i, :, : m.shape[1]] = v
        got = gd.dbal_fast_gauss_scoring_vectorized(pm, pv, d, np.random.default_rng(5), max_combos=budget, distance_factor=df)
        _cmp(got, ref, "vectorized.equals_direct", "vectorized")
        # homoscedastic entry point
        hv = 10.0 ** np.array(case["homo_logvar"], dtype=float)  # (n_plates, n)
        href = [reference_score(m, np.repeat(hv[i][:, None], m.shape[1], axis=1), d, df) for i, m in enumerate(means)]
        got = gd.dbal_fast_gaussian_scoring_homoscedastic(means, hv, d, np.random.default_rng(6), max_combos=budget, distance_factor=df)
        _cmp(got, href, "homoscedastic.equals_direct", "homoscedastic")
        sizes = [m.shape[1] for m in means]
        labels = ["raw", "plates=%d" % len(means)]
        if not positive:
            labels.append("all-distances-zero")
        if 1 in sizes:
            labels.append("size-1-plate")
        if len(set(sizes)) > 1:
            labels.append("ragged")
        return {"nontrivial": len(set(sizes)) > 1 or 1 in sizes, "labels": labels}

    # ---- scorer entry point on real plates
    from batchie.core import Theta
    from batchie.distance_calculation import ChunkedDistanceMatrix

    sc = case["screen"]
    tm, sm = S.space_mappings(sc["ns"], sc["nt"])
    screen = S.build_screen(sc, treatment_mapping=tm, sample_mapping=sm)
    n = len(case["thetas"])
    base = [S.build_theta(p) for p in case["thetas"]]

    class HetTheta(Theta):
        def __init__(self, inner, scale):
            self.inner = inner
            self.scale = np.asarray(scale, dtype=float)

        def predict_viability(self, data):
            return self.inner.predict_viability(data)

        def predict_conditional_mean(self, data):
            return self.inner.predict_conditional_mean(data)

        def predict_conditional_variance(self, data):
            return self.scale[np.asarray(data.sample_ids)] * (1.0 + 0.5 * (np.asarray(data.treatment_ids)[:, 0] + 1)) / self.inner.precision

        def private_parameters_dict(self):
            return {}

    thetas = [HetTheta(b, s) for b, s in zip(base, case["het_scale"])] if case["het"] else base
    from batchie.core import ThetaHolder

    holder = ThetaHolder(n_thetas=n)
    for t in thetas:
        holder.add_theta(t)
    d = _dense(case["dist"], n)
    cdm = ChunkedDistanceMatrix(size=n)
    for i in range(n):
        for j in range(i):
            cdm.add_value(i, j, d[i, j])
    plates = {int(p.plate_id): p for p in screen.plates if not bool(np.all(p.observation_mask))}
    ref = {}
    for pid, p in plates.items():
        m = np.stack([np.asarray(t.predict_conditional_mean(p), dtype=float) for t in thetas])
        v = np.stack([np.asarray(t.predict_conditional_variance(p), dtype=float) for t in thetas])
        ref[pid] = reference_score(m, v, d, 1.0)
    rng = np.random.default_rng(case["perm_seed"])
    order = list(plates)
    rng.shuffle(order)
    by_size_desc = sorted(plates, key=lambda k_: -int(plates[k_].size))
    _scorers = {}
    # another scorer object with a tiny triple budget is used first and stays alive, and one more is constructed after each scorer
    # under test: a scorer's budget and batch size are its own
    decoy_first = gd.GaussianDBALScorer(max_chunk=1, max_triples=2)
    decoy_first.score(plates=dict(plates), distance_matrix=cdm, samples=holder, rng=np.random.default_rng(11), progress_bar=False)
    decoys = [decoy_first]
    for mc, keys in ((case["max_chunk"], sorted(plates)), (50, order), (case["max_chunk"], order), (2, by_size_desc)):
        scorers = _scorers
        if mc not in scorers:  # one scorer object per batch size, reused for the later passes
            scorers[mc] = gd.GaussianDBALScorer(max_chunk=mc, max_triples=math.comb(n, 3) + 3)
            decoys.append(gd.GaussianDBALScorer(max_chunk=mc + 1, max_triples=1))
        scorer = scorers[mc]
        got = scorer.score(plates={k: plates[k] for k in keys}, distance_matrix=cdm, samples=holder, rng=np.random.default_rng(7), progress_bar=False)
        require(sorted(int(k) for k in got) == sorted(plates), "scorer.keys", lambda: "scored plate ids %r, candidates %r" % (sorted(int(k) for k in got), sorted(plates)))
        for k, v in got.items():
            require(_close(float(v), ref[int(k)]), "scorer.equals_direct", lambda: "plate %d: scorer(max_chunk=%d) %r, direct estimator %r" % (int(k), mc, float(v), ref[int(k)]))
    # a call that fails part-way (the distance matrix of another run, for fewer posterior samples) on each of these scorer objects,
    # widest plates first; whatever it raises, the object is used again afterwards and must score as before
    counts = {}
    if n >= 4:
        cdm_small = ChunkedDistanceMatrix(size=n - 1)
        for i in range(n - 1):
            for j in range(i):
                cdm_small.add_value(i, j, d[i, j])
        for mc, scorer in sorted(_scorers.items()):
            try:
                scorer.score(plates={k: plates[k] for k in by_size_desc}, distance_matrix=cdm_small, samples=holder, rng=np.random.default_rng(12), progress_bar=False)
                counts["mismatched_call_returned"] = counts.get("mismatched_call_returned", 0) + 1
            except Exception:
                counts["mismatched_call_raised"] = counts.get("mismatched_call_raised", 0) + 1
            got = scorer.score(plates={k: plates[k] for k in sorted(plates, key=lambda k_: int(plates[k_].size))}, distance_matrix=cdm, samples=holder, rng=np.random.default_rng(13), progress_bar=False)
            for k, v in got.items():
                require(_close(float(v), ref[int(k)]), "scorer.after_failed_call", lambda: "plate %d: the scorer object (max_chunk=%d), used again after a call that failed, gives %r; direct estimator %r" % (int(k), mc, float(v), ref[int(k)]))
    # candidate plates of TWO screen objects of equal length in one call (two libraries scored together): every plate's score is
    # the direct estimator on that plate's own experiments
    other = S.build_screen(dict(sc, rows=list(reversed(sc["rows"]))), treatment_mapping=screen.treatment_mapping, sample_mapping=screen.sample_mapping)
    plates_b = {1000 + int(p_.plate_id): p_ for p_ in other.plates if not bool(np.all(p_.observation_mask))}
    if plates_b:
        ref_b = {}
        for pid, p_ in plates_b.items():
            m_ = np.stack([np.asarray(t.predict_conditional_mean(p_), dtype=float) for t in thetas])
            v_ = np.stack([np.asarray(t.predict_conditional_variance(p_), dtype=float) for t in thetas])
            ref_b[pid] = reference_score(m_, v_, d, 1.0)
        both = dict(plates)
        both.update(plates_b)
        keys_ = sorted(both, key=lambda k_: (k_ % 1000, k_))  # plates of the two screens alternate
        for mc in sorted({case["max_chunk"], 2, 50}):
            got = gd.GaussianDBALScorer(max_chunk=mc, max_triples=math.comb(n, 3) + 3).score(plates={k_: both[k_] for k_ in keys_}, distance_matrix=cdm, samples=holder, rng=np.random.default_rng(14), progress_bar=False)
            for k_, v_ in got.items():
                want_ = ref[int(k_)] if int(k_) < 1000 else ref_b[int(k_)]
                require(_close(float(v_), want_), "scorer.plates_of_two_screens", lambda: "plates of two screen objects scored in one call (max_chunk=%d): plate key %d gets %r, the direct estimator on its own experiments is %r" % (mc, int(k_), float(v_), want_))
    # the same scorer objects, another distance matrix (the next round of a simulation): scores follow the new matrix
    d2 = d[::-1, ::-1].copy() * 1.5 + (1.0 - np.eye(n)) * 0.25
    cdm2 = ChunkedDistanceMatrix(size=n)
    for i in range(n):
        for j in range(i):
            cdm2.add_value(i, j, d2[i, j])
    for mc, scorer in sorted(_scorers.items()):
        got = scorer.score(plates=dict(plates), distance_matrix=cdm2, samples=holder, rng=np.random.default_rng(8), progress_bar=False)
        for k, v in got.items():
            pl = plates[int(k)]
            m_ = np.stack([np.asarray(t.predict_conditional_mean(pl), dtype=float) for t in thetas])
            v_ = np.stack([np.asarray(t.predict_conditional_variance(pl), dtype=float) for t in thetas])
            r2 = reference_score(m_, v_, d2, 1.0)
            require(_close(float(v), r2), "scorer.second_distance_matrix", lambda: "plate %d: the scorer object (max_chunk=%d), used again with another distance matrix, gives %r; direct estimator with that matrix %r" % (int(k), mc, float(v), r2))
    # candidate plates conditioned on an already selected plate (what score_chunk hands the scorer when a batch is under way): the
    # scored subsets OVERLAP (each holds the batch plate's experiments); every one must still equal the direct estimator on its own rows
    if len(plates) >= 2:
        keys = sorted(plates)
        batch_key = keys[case["perm_seed"] % len(keys)]
        cond = {k: (plates[k] if k == batch_key else plates[k].combine(plates[batch_key])) for k in keys if k != batch_key or len(keys) == 2}
        cref = {}
        for k, sub in cond.items():
            m_ = np.stack([np.asarray(t.predict_conditional_mean(sub), dtype=float) for t in thetas])
            v_ = np.stack([np.asarray(t.predict_conditional_variance(sub), dtype=float) for t in thetas])
            cref[k] = reference_score(m_, v_, d, 1.0)
        for mc in sorted({case["max_chunk"], 50, 2}):
            got = gd.GaussianDBALScorer(max_chunk=mc, max_triples=math.comb(n, 3) + 3).score(plates=dict(cond), distance_matrix=cdm, samples=holder, rng=np.random.default_rng(9), progress_bar=False)
            for k, v in got.items():
                require(_close(float(v), cref[int(k)]), "scorer.overlapping_subsets", lambda: "subset %d (a plate combined with the already selected plate %d, so the scored subsets overlap; max_chunk=%d): scorer %r, direct estimator on its own rows %r" % (int(k), batch_key, mc, float(v), cref[int(k)]))
    sizes = [int(p.size) for p in plates.values()]
    labels = ["scorer", "het" if case["het"] else "homo", "chunked" if case["max_chunk"] < len(plates) else "one-chunk"]
    return {"nontrivial": len(set(sizes)) > 1 or 1 in sizes, "labels": labels, "counts": counts}
