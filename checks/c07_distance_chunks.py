"""C07 - pairwise-distance chunks partition the work and assemble to the same matrix."""
import numpy as np
from hypothesis import strategies as st
from scipy.special import expit

from vf import strategies as S
from vf import tmp
from vf import xproc
from vf.cli import run_cli
from vf.engine import Violation, require

ID = "C07"
LEVEL = "exploration"
TECHNIQUE = "exhaustive enumeration of (n, n_chunks) for the partition claim + Hypothesis-generated theta sets / chunk orders with save-load-concat compared to a direct recomputation of the metric"
RULE = (
    "partition: every (n, n_chunks) with n<=14 and n_chunks<=C(n,2)+3, and n<=40 (thorough 70) with n_chunks in 1..12 and around "
    "C(n,2); assembly: 0..8 (sometimes 12/46) posterior samples of both shipped types (incl. identical pairs -> exact 0 distances), a screen to "
    "predict on (occasionally 12 or 46 samples = 66 / 1035 pairs), n_chunks in 1..pairs+3, an order of chunk files covering all chunks with repetitions, through the API and "
    "(1 in 4) the calculate_distance_matrix CLI with the samples spread over 1..3 files given in order; half the cases with the progress option / --progress flag, some with files in oddly named directories (glob characters, spaces, non-ASCII). Non-trivial = n_chunks>=2 with a repeated or out-of-order chunk, or "
    "n_chunks > C(n,2) (partition cases: n_chunks>=2 and n>=3). distinct = distinct case JSON."
    ' Also: a production-size task (1.25 million experiments x 15 samples; thorough: two more) and fixed cases with one interpreter process per chunk.'
    ' Half the API cases compute with a ThetaHolder subclass that builds its samples on request; a third of the small CLI cases name the first file of samples twice.'
    ' A third of the cases with >= 2 samples re-enter the metric object (another distance computed at every line of one distance call).'
)
ASSUMPTIONS = [
    "the oracle recomputes MSEDistance as mean((expit(a)-expit(b))**2) resp. mean((a-b)**2) on the samples' viability predictions (rtol 1e-12)",
    "thetas are predicted on an arity-2 screen whose ids fit the parameter arrays",
]


def budgets(tier):
    if tier == "quick":
        return {"examples": 250, "max_s": 110, "shrink_s": 20, "shards": 1}
    return {"examples": 2000, "max_s": 700, "shrink_s": 90, "shards": 16}


def exhaustive(tier):
    top = 40 if tier == "quick" else 70
    for n in range(0, top + 1):
        pairs = n * (n - 1) // 2
        if n <= 14:
            ks = range(1, pairs + 4)
        else:
            ks = sorted(set(list(range(1, 13)) + [max(1, pairs - 1), pairs, pairs + 1, pairs + 3, max(1, pairs // 2), max(1, pairs // 3 + 1)]))
        for k in ks:
            yield {"kind": "partition", "n": n, "n_chunks": k}
    for n_, k_, order_ in [(7, 3, [2, 0, 1]), (5, 4, [3, 1, 0, 2, 1])] + ([(12, 5, [4, 3, 2, 1, 0]), (9, 2, [1, 0, 1])] if tier != "quick" else []):
        r_ = np.random.default_rng(n_ * 10 + k_)
        rows_ = [{"s": "s%d" % (i % 2), "p": "p%d" % (i % 3), "t": ["t%d" % (i % 3), "t%d" % ((i + 1) % 3)], "d": [1.0, 2.0], "o": 0.5} for i in range(9)]
        sc_ = {"arity": 2, "control": "ctl", "rows": rows_, "observed": [], "ns": 2, "nt": 6, "layout": None}
        th_ = [{"kind": "additive", "W": r_.normal(size=(2, 2)).tolist(), "W0": r_.normal(size=2).tolist(), "V2": r_.normal(size=(6, 2)).tolist(), "V1": r_.normal(size=(6, 2)).tolist(), "V0": r_.normal(size=6).tolist(), "alpha": 0.1 * i, "precision": 1.0} for i in range(n_)]
        yield {"kind": "assembly", "screen": sc_, "thetas": th_, "n_chunks": k_, "order": order_, "sigmoid": True, "cli": True, "xproc": True, "theta_files": 2, "progress": False, "odd_paths": None}
    for e, t, k, order in [(1_250_000, 15, 3, [2, 0, 2, 1])] + ([(2_200_003, 9, 2, [1, 0]), (400_009, 45, 4, [3, 1, 0, 2, 1])] if tier != "quick" else []):
        yield {"kind": "big", "E": e, "T": t, "n_chunks": k, "order": order, "seed": e + t}


def _big(case):
    from batchie.data import Screen

    e, t = case["E"], case["T"]
    r = np.random.default_rng(case["seed"])
    nt, ns = 40, 7
    tn = np.array(["d%02d" % i for i in range(nt)])[r.integers(0, nt, size=(e, 1))]
    screen = Screen(treatment_names=tn, treatment_doses=np.ones((e, 1)), observations=np.zeros(e), observation_mask=np.zeros(e, dtype=bool), sample_names=np.array(["s%d" % i for i in range(ns)])[r.integers(0, ns, size=e)], plate_names=np.array(["p%d" % i for i in range(50)])[r.integers(0, 50, size=e)], control_treatment_name="ctl")
    ns_, nt_ = screen.n_unique_samples, screen.n_unique_treatments
    ps = [{"kind": "additive", "W": r.normal(size=(ns_, 1)).tolist(), "W0": r.normal(size=ns_).tolist(), "V2": r.normal(size=(nt_, 1)).tolist(), "V1": r.normal(size=(nt_, 1)).tolist(), "V0": r.normal(size=nt_).tolist(), "alpha": 0.1 * i, "precision": 1.0} for i in range(t)]
    return screen, S.build_holder(ps)


@st.composite
def _assembly(draw):
    sc = draw(S.simple_screen(n_rows=(1, 8), allow_same=True))
    n = draw(st.sampled_from([0, 1, 2, 3, 4, 5, 6, 7, 8, 3, 4, 5, 12, 46]))  # 46 samples = 1035 pairs (> 1000) once in a while
    kind = draw(st.sampled_from(["additive", "additive", "interaction"]))
    thetas = []
    table = draw(S.effect_table(S.full_table_pairs(sc["ns"], sc["nt"]))) if kind == "interaction" else None
    for i in range(n):
        if len(thetas) >= 9:  # large collections: perturb one entry of an earlier sample (cheap to draw, all distinct)
            base = dict(thetas[i % 9])
            base["W"] = [list(r) for r in base["W"]]
            base["W"][0][0] = float(i) / 7.0
            thetas.append(base)
            continue
        if thetas and draw(st.integers(0, 4)) == 0:
            thetas.append(thetas[draw(st.integers(0, len(thetas) - 1))])  # identical pair -> distance exactly 0
        else:
            thetas.append(draw(S.theta_params(kind, sc["ns"], sc["nt"], D=2, table=table)))
    pairs = n * (n - 1) // 2
    n_chunks = draw(st.integers(1, pairs + 3)) if n <= 8 else draw(st.sampled_from([1, 2, 3, 7, 16]))
    base = list(range(n_chunks))
    extra = draw(st.lists(st.integers(0, n_chunks - 1), max_size=4))
    order = draw(st.permutations(base + extra))
    return {
        "kind": "assembly",
        "screen": sc,
        "thetas": thetas,
        "n_chunks": n_chunks,
        "order": list(order),
        "sigmoid": draw(st.booleans()),
        "cli": draw(st.integers(0, 3)) == 0 and n >= 1,
        # the command line takes one file of posterior samples per chain: the samples are spread over 1..3 files in order
        "theta_files": draw(st.integers(1, 3)),
        # non-default reporting option of the computation (library argument / --progress flag); files in oddly named directories
        "progress": draw(st.booleans()),
        "odd_paths": draw(st.one_of(st.none(), st.integers(0, 40))),
    }


def strategy(tier):
    return _assembly()


def _check_partition(n, k):
    from batchie import distance_calculation as dc

    chunks = [dc.get_lower_triangular_indices_chunk(n, c, k) for c in range(k)]
    flat = [tuple(map(int, p)) for ch in chunks for p in ch]
    ref = [(i, j) for i in range(n) for j in range(i)]
    require(len(flat) == len(set(flat)), "partition.disjoint", lambda: "n=%d n_chunks=%d: a pair appears in two chunks" % (n, k))
    require(set(flat) == set(ref), "partition.cover", lambda: "n=%d n_chunks=%d: chunks cover %d of %d pairs" % (n, k, len(set(flat)), len(ref)))
    require(flat == ref, "partition.order", lambda: "n=%d n_chunks=%d: concatenated chunks are not the row-major pair order" % (n, k))
    sizes = [len(c) for c in chunks]
    require(max(sizes) - min(sizes) <= 1, "partition.balance", lambda: "n=%d n_chunks=%d: chunk sizes %r differ by more than one" % (n, k, sizes))
    for c in range(k):
        m = dc.ChunkedDistanceMatrix(size=n, n_chunks=k, chunk_index=c)
        require(m.chunk_size == sizes[c] or sizes[c] == 0, "partition.storage", lambda: "n=%d chunk %d/%d allocates %d slots for %d pairs" % (n, c, k, m.chunk_size, sizes[c]))
        if k > 40:
            break
    return sizes


def check_case(case):
    from batchie import distance_calculation as dc
    from batchie.core import ThetaHolder
    from batchie.distance.mse import MSEDistance

    if case["kind"] == "partition":
        n, k = case["n"], case["n_chunks"]
        _check_partition(n, k)
        return {"nontrivial": k >= 2 and n >= 3, "labels": ["partition", "more-chunks-than-pairs" if k > n * (n - 1) // 2 else "chunks<=pairs"]}

    if case["kind"] == "big":
        # a production-size task: the predictions of all samples together exceed 128 MiB (described by parameters)
        screen, holder = _big(case)
        n = case["T"]
        sc = None
        case = dict(case, cli=False, sigmoid=True)
    else:
        sc = case["screen"]
        tm, sm = S.space_mappings(sc["ns"], sc["nt"])
        screen = S.build_screen(sc, treatment_mapping=tm, sample_mapping=sm)
        n0 = len(case["thetas"])
        repeat_cut = 0
        if case["cli"] and n0 >= 1 and n0 <= 8 and (n0 + case["n_chunks"] + len(case["order"])) % 3 == 0 and not case.get("xproc"):
            # the first file of posterior samples is named twice on the command line: its samples take part twice (distance 0 between twins)
            nf0 = max(1, min(case.get("theta_files", 1), n0))
            repeat_cut = round(1 * n0 / nf0)
            case = dict(case, thetas=list(case["thetas"]) + list(case["thetas"][:repeat_cut]), n_chunks=min(case["n_chunks"], 3), order=[c_ for c_ in case["order"] if c_ < min(case["n_chunks"], 3)] or [0])
            if sorted(set(case["order"])) != list(range(case["n_chunks"])):
                case["order"] = list(range(case["n_chunks"]))
        n = len(case["thetas"])
        holder = S.build_holder(case["thetas"]) if n else ThetaHolder(n_thetas=0)
    compute_with = holder
    if sc is not None and n >= 2 and not case["cli"] and (n + case["n_chunks"]) % 2 == 0:
        # a collection that materialises its samples on request (backed by a parameter table): every get_theta() call hands out a
        # new, short-lived object - any ThetaHolder subclass may do so
        params_ = list(case["thetas"])

        class OnDemand(ThetaHolder):
            def __init__(self):
                ThetaHolder.__init__(self, n_thetas=len(params_))

            def get_theta(self, step_index):
                if step_index < 0 or step_index >= len(params_):
                    raise ValueError("step_index out of bounds")
                return S.build_theta(params_[step_index])

        compute_with = OnDemand()
    k = case["n_chunks"]
    if case["cli"]:
        case = dict(case, sigmoid=True)  # the CLI can only pass *required* constructor arguments: default metric
    metric = MSEDistance(sigmoid=case["sigmoid"])
    pairs = n * (n - 1) // 2

    # metric properties on the actual predictions
    preds = [np.asarray(t.predict_viability(screen), dtype=float) for t in holder.thetas]
    for i in range(min(n, 4)):
        for j in range(min(n, 4)):
            dij, dji = metric.distance(preds[i], preds[j]), metric.distance(preds[j], preds[i])
            require(dij == dji, "metric.symmetric", lambda: "d(%d,%d)=%r != d(%d,%d)=%r" % (i, j, dij, j, i, dji))
            require(dij >= 0, "metric.nonnegative", lambda: "d=%r" % dij)
        require(metric.distance(preds[i], preds[i].copy()) == 0, "metric.identity", "distance of identical predictions is not 0")
    if n >= 2 and (n + k) % 3 == 0:
        # re-entrancy: while the metric object computes one distance, it is asked for another one (a callback, a signal handler,
        # another thread sharing the object); both answers must be the undisturbed ones
        from vf import interrupt

        a_, b_ = preds[0], preds[1]
        c_, d_ = preds[1] * 0.5 + 0.25, preds[0][::-1].copy()
        want_ab, want_cd = metric.distance(a_, b_), metric.distance(c_, d_)
        for point in range(1, 80):
            got_ab, got_cd, fired = interrupt.reentered_at(lambda: metric.distance(a_, b_), point, lambda: metric.distance(c_, d_))
            if not fired:
                break
            require(got_ab == want_ab and got_cd == want_cd, "metric.reentrant", lambda: "a distance during whose computation (line event %d) the same metric object computed another distance: %r (undisturbed %r); the inner one %r (on its own %r)" % (point, got_ab, want_ab, got_cd, want_cd))

    def oracle(a, b):
        if case["sigmoid"]:
            a, b = expit(a), expit(b)
        return float(np.mean((a - b) ** 2))

    expected = np.zeros((n, n))
    for i in range(n):
        for j in range(i):
            expected[i, j] = expected[j, i] = oracle(preds[i], preds[j])

    paths = []
    try:
        single = dc.calculate_pairwise_distance_matrix_on_predictions(thetas=compute_with, distance_metric=metric, data=screen, chunk_index=0, n_chunks=1)
        require(single.is_complete(), "single.complete", "single-chunk matrix is not complete")
        dense1 = single.to_dense()
        require(dense1.shape == (n, n), "single.shape", "dense shape %r" % (dense1.shape,))
        require(np.allclose(dense1, expected, rtol=1e-12, atol=1e-15), "single.values", lambda: "single-chunk matrix differs from the metric on viability predictions: %r vs %r" % (dense1.tolist(), expected.tolist()))
        require(np.array_equal(dense1, dense1.T) and np.all(np.diag(dense1) == 0), "single.symmetric_zero_diag", "matrix not symmetric / diagonal not zero")

        chunk_objs = {}
        chunk_files = {}
        theta_files = []
        screen_file = None
        if case["cli"]:
            screen_file = tmp.fresh("screen.h5")
            paths.append(screen_file)
            screen.save_h5(screen_file)
            n_files = n - repeat_cut
            nf = max(1, min(case.get("theta_files", 1), n_files))
            cuts = [round(i * n_files / nf) for i in range(nf + 1)]
            for a_, b_ in zip(cuts, cuts[1:]):
                same_name = (case.get("odd_paths") or 0) % 3 == 1  # (chain files with equal base names in directories of their own)
                tf = tmp.fresh("thetas.h5" if same_name else "thetas_%d.h5" % a_, odd=None if case.get("odd_paths") is None else case["odd_paths"] + 3 + a_, own_dir=same_name)
                paths.append(tf)
                S.build_holder(case["thetas"][a_:b_]).save_h5(tf)
                theta_files.append(tf)
            if repeat_cut:
                require(cuts[1] == repeat_cut, "harness", "first file does not hold the repeated samples")
                theta_files.append(theta_files[0])
        for c in range(k):
            p = tmp.fresh("dist_%d.h5" % c, odd=None if case.get("odd_paths") is None else case["odd_paths"] + c)
            paths.append(p)
            if case["cli"] and case.get("xproc"):
                # every chunk in its own interpreter process with its own string-hash salt, as the pipeline runs them
                ok_, text_ = xproc.cli("calculate_distance_matrix", ["--data", screen_file, "--thetas"] + theta_files + ["--distance-metric", "MSEDistance", "--n-chunks", k, "--chunk-index", c, "--output", p], hashseed=500 + 31 * c + n)
                require(ok_, "xproc.chunk_failed", lambda: "calculate_distance_matrix for chunk %d of %d in its own process failed: %s" % (c, k, text_[-600:]))
            elif case["cli"]:
                run_cli("calculate_distance_matrix", ["--data", screen_file, "--thetas"] + theta_files + ["--distance-metric", "MSEDistance", "--n-chunks", k, "--chunk-index", c, "--output", p] + (["--progress"] if case.get("progress") else []), verbose=(case.get("odd_paths") or 0) % 2 == 1)
            else:
                if case.get("progress"):
                    import contextlib
                    import io

                    with contextlib.redirect_stderr(io.StringIO()):
                        m = dc.calculate_pairwise_distance_matrix_on_predictions(thetas=holder, distance_metric=metric, data=screen, chunk_index=c, n_chunks=k, progress=True)
                else:
                    m = dc.calculate_pairwise_distance_matrix_on_predictions(thetas=compute_with, distance_metric=metric, data=screen, chunk_index=c, n_chunks=k)
                m.save(p)
            chunk_files[c] = p
        loaded = [dc.ChunkedDistanceMatrix.load(chunk_files[c]) for c in case["order"]]
        sizes = {c: dc.ChunkedDistanceMatrix.load(chunk_files[c]).current_index for c in range(k)}
        ref_sizes = [len(dc.get_lower_triangular_indices_chunk(n, c, k)) for c in range(k)]
        require([sizes[c] for c in range(k)] == ref_sizes, "chunk.file_sizes", lambda: "chunk files hold %r values, chunks have %r pairs" % ([sizes[c] for c in range(k)], ref_sizes))
        combined = dc.ChunkedDistanceMatrix.concat(loaded)
        # the loaded chunks can be combined again (other order) with the same result (whether combine accumulates into one of its
        # inputs is not asserted: the statement only fixes the assembled matrix)
        again = dc.ChunkedDistanceMatrix.concat(list(reversed(loaded)))
        require(again.is_complete() and np.array_equal(again.to_dense(), combined.to_dense() if combined.is_complete() else again.to_dense()), "assembled.repeatable", "combining the same loaded chunks a second time (reversed order) gives another matrix")
        require(combined.is_complete(), "assembled.complete", lambda: "assembled matrix incomplete (order %r, %d/%d values)" % (case["order"], combined.current_index, pairs))
        # the chunks folded pairwise with combine() itself, twice in one process (second time in reversed order)
        for tag_, seq_ in (("first", list(case["order"])), ("second", list(reversed(case["order"])))):
            acc = dc.ChunkedDistanceMatrix.load(chunk_files[seq_[0]])
            for c_ in seq_[1:]:
                acc = acc.combine(dc.ChunkedDistanceMatrix.load(chunk_files[c_]))
            require(acc.is_complete(), "folded.complete", lambda: "chunks folded with combine() (%s fold of this process, order %r) hold %d of %d pairs" % (tag_, seq_, acc.current_index, pairs))
            require(np.array_equal(acc.to_dense(), dense1), "folded.equals_single", lambda: "chunks folded with combine() (%s fold, order %r) differ from the single-chunk matrix" % (tag_, seq_))
        # ... and in other bracketings: a combine() result among the inputs of concat, a concat of concats
        uniq_ = sorted(set(case["order"]), key=list(case["order"]).index)
        if len(uniq_) >= 2:
            ld_ = lambda cs: [dc.ChunkedDistanceMatrix.load(chunk_files[c_]) for c_ in cs]
            cut_ = 1 + len(case["order"]) % (len(uniq_) - 1)
            a_ = ld_(uniq_)
            left_ = a_[0]
            for m_ in a_[1:cut_]:
                left_ = left_.combine(m_)
            for tag_, g_ in (("combine_inside_concat", dc.ChunkedDistanceMatrix.concat([left_] + a_[cut_:])), ("concat_of_concats", dc.ChunkedDistanceMatrix.concat([dc.ChunkedDistanceMatrix.concat(ld_(uniq_[:cut_])), dc.ChunkedDistanceMatrix.concat(ld_(uniq_[cut_:]))]))):
                require(g_.is_complete() and np.array_equal(g_.to_dense(), dense1), "assembled.bracketing." + tag_, lambda: "chunks %r combined as %s (split after %d) %s" % (uniq_, tag_, cut_, "are incomplete" if not g_.is_complete() else "differ from the single-chunk matrix"))
        dense = combined.to_dense()
        require(np.array_equal(combined.to_dense(), dense), "assembled.to_dense_repeatable", "to_dense gives another matrix the second time")
        require(np.array_equal(dense, dense1), "assembled.equals_single", lambda: "assembled %r != single-chunk %r (order %r)" % (dense.tolist(), dense1.tolist(), case["order"]))
        require(np.array_equal(dense, dense.T) and np.all(np.diag(dense) == 0), "assembled.symmetric_zero_diag", "assembled matrix not symmetric / diagonal not zero")

        # leave out one non-empty chunk: must be incomplete and refuse to densify
        nonempty = [c for c in range(k) if ref_sizes[c] > 0]
        if nonempty:
            drop = nonempty[case["order"][0] % len(nonempty)]
            rest = [dc.ChunkedDistanceMatrix.load(chunk_files[c]) for c in case["order"] if c != drop]
            if rest:
                part = dc.ChunkedDistanceMatrix.concat(rest)
                require(not part.is_complete(), "partial.incomplete", lambda: "matrix without chunk %d claims to be complete" % drop)
                try:
                    part.to_dense()
                except ValueError:
                    pass
                else:
                    raise Violation("partial.refuses_dense", "matrix missing chunk %d was densified" % drop)
    finally:
        tmp.cleanup(*paths)

    # the same holder object, another screen: the entries are the metric on the predictions for THAT screen
    if n >= 2 and sc is not None:
        rows2 = [dict(r_, s="s%d" % ((int(r_["s"][1:]) + 1) % sc["ns"])) for r_ in sc["rows"]][::-1] + sc["rows"][:1]
        screen2 = S.build_screen(dict(sc, rows=rows2), treatment_mapping=tm, sample_mapping=sm)
        preds2 = [np.asarray(t.predict_viability(screen2), dtype=float) for t in holder.thetas]
        exp2 = np.zeros((n, n))
        for i in range(n):
            for j in range(i):
                exp2[i, j] = exp2[j, i] = oracle(preds2[i], preds2[j])
        m2 = dc.calculate_pairwise_distance_matrix_on_predictions(thetas=holder, distance_metric=metric, data=screen2, chunk_index=0, n_chunks=1)
        require(np.allclose(m2.to_dense(), exp2, rtol=1e-12, atol=1e-15), "second_screen.values", lambda: "matrix for a second screen computed with the same collection of samples differs from the metric on that screen's predictions: %r vs %r" % (m2.to_dense().tolist(), exp2.tolist()))
        again1 = dc.calculate_pairwise_distance_matrix_on_predictions(thetas=holder, distance_metric=metric, data=screen, chunk_index=0, n_chunks=1)
        require(np.array_equal(again1.to_dense(), dense1), "first_screen.repeatable", "recomputing the matrix for the first screen gives other values")
    order = case["order"]
    repeated = len(order) > len(set(order))
    out_of_order = order != sorted(order)
    labels = ["assembly", "thetas=%d" % n] + (["samples-materialised-on-request"] if compute_with is not holder else []) + (["predictions>128MiB"] if sc is None and n * screen.size * 8 > 2**27 else [])
    if case["cli"]:
        labels.append("cli" if not case.get("xproc") else "one-process-per-chunk")
        if repeat_cut:
            labels.append("file-named-twice")
    if repeated:
        labels.append("repeated-chunk")
    if k > pairs:
        labels.append("more-chunks-than-pairs")
    if n >= 2 and np.any(dense1[np.tril_indices(n, -1)] == 0):
        labels.append("zero-distance")
    return {"nontrivial": (k >= 2 and (repeated or out_of_order)) or k > pairs or sc is None, "labels": labels}
