"""'Controlled randomness': make code that draws from the process-global numpy state and from unseeded
numpy.random.default_rng() a function of a given seed, so two runs can be compared although the code under test may
(on an unrepaired tree) ignore the generator it was handed.  C18 itself runs WITHOUT this context."""
import contextlib

import numpy as np
import numpy.random as npr


@contextlib.contextmanager
def controlled(seed):
    state = npr.get_state()
    orig = npr.default_rng
    counter = [0]

    def default_rng(seed_arg=None):
        if seed_arg is None:
            counter[0] += 1
            return orig([int(seed) % (2**63), counter[0]])
        return orig(seed_arg)

    npr.seed(int(seed) % (2**32))
    npr.default_rng = default_rng
    np.random.default_rng = default_rng
    try:
        yield
    finally:
        npr.default_rng = orig
        np.random.default_rng = orig
        npr.set_state(state)
