"""C19 - the orchestration script resumes correctly after an interruption at any point (fault enumeration)."""
import json
import os
import re
import shutil

from hypothesis import strategies as st

from vf import orch_sim as osim
from vf import tmp
from vf import tree
from vf.engine import Violation, require
from vf.tree import HarnessError, attach

ID = "C19"
LEVEL = "fault_enumeration"
TECHNIQUE = "exhaustive enumeration of single crash points (and Hypothesis-sampled double crashes / configurations) of the real script driven against an in-process simulator of the nextflow workflows; differential against the never-interrupted run"
RULE = (
    "configuration = (mode, batch size 1..4, 2..7 plates, n_chains/n_chunks 1..2, publication order salt, position of the prospective metadata file, absolute or relative --outdir with the script started in the project directory); the "
    "uninterrupted run defines the reference log and the number N of injection points (before/after every directory creation, every removed entry, every published "
    "file); an interruption is a kill (nothing of the script runs afterwards), a KeyboardInterrupt (the script's own handlers run; the script is entered through its main()) or a failing pipeline command; exhaustive part: every single interruption point of the listed configurations (by kill and by KeyboardInterrupt; by a failing command for three configurations in the quick tier, all in the thorough tier); generated part: drawn configurations with 1..2 crash points. Non-trivial = "
    "a crash strictly inside a step (job directory exists, last file not yet published), or in the first step of a new iteration, or a second crash during recovery. "
    "distinct = distinct (configuration, crash points)."
    ' A quarter of the configurations carry pass-through options on the command line (--excludes in both spellings, unrelated options).'
    ' Interruption styles: kill, KeyboardInterrupt, failing pipeline command, pipeline command killed by a signal (negative return code).'
    ' Prospective configurations may start from screens with nothing (or less than a batch) left to select.'
)
ASSUMPTIONS = [
    "nextflow itself is not run: its observable contract (files under --outdir/<name>/, published atomically in an order consistent with the process DAG of the .nf sources) is simulated",
    "the operator reruns the script after a crash and, when the script names a directory as incomplete, removes exactly that directory (atomically) and reruns",
    "prospective mode is compared with as many uninterrupted invocations as needed to cover the same (iteration, plate) keys",
]
LEVEL_TEXT = (
    "Fault enumeration: every single interruption point of the listed configurations is executed against the real script and compared with the crash-free run "
    "(inputs, selections, deletions, order, final tree); double interruptions and further configurations are sampled. The pipeline the script launches is a simulator."
)


def budgets(tier):
    if tier == "quick":
        return {"examples": 700, "max_s": 80, "shrink_s": 20, "shards": 1}
    return {"examples": 1500, "max_s": 900, "shrink_s": 120, "shards": 16}


CONFIGS_QUICK = [
    {"mode": "retrospective", "batch": 2, "plates": 5, "n_chains": 1, "n_chunks": 1, "order_salt": "a", "metadata_position": None},
    {"mode": "retrospective", "batch": 1, "plates": 3, "n_chains": 2, "n_chunks": 2, "order_salt": "b", "metadata_position": None},
    {"mode": "prospective", "batch": 2, "plates": 5, "n_chains": 1, "n_chunks": 1, "order_salt": "a", "metadata_position": "last", "invocations": 2},
    {"mode": "retrospective", "batch": 3, "plates": 6, "n_chains": 1, "n_chunks": 1, "order_salt": "c", "metadata_position": None},
    {"mode": "prospective", "batch": 2, "plates": 4, "n_chains": 1, "n_chunks": 1, "order_salt": "b", "metadata_position": "first", "invocations": 2},
    {"mode": "prospective", "batch": 3, "plates": 5, "n_chains": 2, "n_chunks": 1, "order_salt": "d", "metadata_position": None, "invocations": 1},
    {"mode": "retrospective", "batch": 2, "plates": 4, "n_chains": 1, "n_chunks": 1, "order_salt": "e", "metadata_position": None, "relative_outdir": True},
    # prospective runs on screens with nothing (or less than a batch) left to select
    {"mode": "prospective", "batch": 2, "plates": 3, "n_chains": 1, "n_chunks": 1, "order_salt": "a", "metadata_position": "last", "invocations": 2, "observed": 3},
    {"mode": "prospective", "batch": 3, "plates": 4, "n_chains": 1, "n_chunks": 1, "order_salt": "b", "metadata_position": None, "invocations": 2, "observed": 3},
    # options the script does not know and hands through to every pipeline launch (among them one it also sets itself)
    {"mode": "retrospective", "batch": 3, "plates": 6, "n_chains": 1, "n_chunks": 1, "order_salt": "a", "metadata_position": None, "user_args": ["--excludes", "2"]},
    {"mode": "prospective", "batch": 3, "plates": 6, "n_chains": 1, "n_chunks": 1, "order_salt": "c", "metadata_position": "last", "invocations": 2, "user_args": ["--excludes=1,4", "--max_cpus", "3"]},
]


def _all_configs():
    out = []
    for mode in ("retrospective", "prospective"):
        for batch in (1, 2, 3, 4):
            for plates in (2, 3, 4, 5, 6, 7):
                if mode == "prospective" and batch > plates:
                    continue
                for pos in ((None,) if mode == "retrospective" else ("last", "first", None)):
                    c = {"mode": mode, "batch": batch, "plates": plates, "n_chains": 1 + (plates % 2), "n_chunks": 1 + (batch % 2), "order_salt": "s%d%d" % (batch, plates), "metadata_position": pos}
                    if mode == "prospective":
                        c["invocations"] = 2
                    out.append(c)
    return out


_n_cache = {}


def n_points(cfg):
    k = json.dumps(cfg, sort_keys=True)
    if k not in _n_cache:
        ref = run_scenario(cfg, [])
        if ref["problem"]:
            _n_cache[k] = (0, ref)
        else:
            _n_cache[k] = (ref["ticks"], ref)
    return _n_cache[k]


STYLES = ("kill", "interrupt", "fail", "signal")


def exhaustive(tier):
    cfgs = CONFIGS_QUICK if tier == "quick" else _all_configs()
    for ci, cfg in enumerate(cfgs):
        n, _ = n_points(cfg)
        yield {"cfg": cfg, "crashes": []}
        for c in range(n):
            yield {"cfg": cfg, "crashes": [c]}
        # the same points reached by Ctrl-C (the script's own handlers run) and by a failing pipeline command
        if True:
            for c in range(n):
                yield {"cfg": cfg, "crashes": [c], "style": "interrupt"}
        if tier != "quick" or ci in (0, 1, 2):
            for c in range(n):
                yield {"cfg": cfg, "crashes": [c], "style": "fail"}
        if tier != "quick" or ci in (0, 2, 3):
            for c in range(n):
                yield {"cfg": cfg, "crashes": [c], "style": "signal"}
    if tier == "thorough":
        # every ordered pair for three small configurations
        for cfg in CONFIGS_QUICK[:3]:
            n, _ = n_points(cfg)
            for c1 in range(n):
                for d in range(0, n, 2):
                    yield {"cfg": cfg, "crashes": [c1, c1 + 1 + d]}


@st.composite
def _case(draw):
    mode = draw(st.sampled_from(["retrospective", "retrospective", "prospective"]))
    plates = draw(st.integers(2, 7))
    batch = draw(st.integers(1, 4))
    if mode == "prospective":
        batch = min(batch, plates)
    cfg = {
        "mode": mode,
        "batch": batch,
        "plates": plates,
        "n_chains": draw(st.integers(1, 2)),
        "n_chunks": draw(st.integers(1, 2)),
        "order_salt": draw(st.sampled_from(["a", "b", "c", "d", "e", "f"])),
        "metadata_position": draw(st.sampled_from(["last", "last", "first", None])) if mode == "prospective" else None,
    }
    if mode == "prospective":
        cfg["invocations"] = draw(st.integers(1, 3))
        if draw(st.integers(0, 2)) == 0:
            cfg["observed"] = draw(st.integers(1, plates))
    if draw(st.integers(0, 3)) == 0:
        cfg["relative_outdir"] = True  # --outdir relative to the directory the script is started in (not the repository root)
    if draw(st.integers(0, 3)) == 0:
        # pass-through options of the operator's command line (the pipeline honours the last occurrence of an option)
        cfg["user_args"] = draw(st.sampled_from([["--excludes", "0"], ["--excludes=1"], ["--excludes", "2,3"], ["--max_cpus", "2", "--excludes=0"], ["--resume_note", "x y"]]))
    c1 = draw(st.integers(0, 400))
    crashes = [c1]
    if draw(st.booleans()):
        crashes.append(c1 + 1 + draw(st.integers(0, 120)))
    return {"cfg": cfg, "crashes": crashes, "frac": True, "style": draw(st.sampled_from(["kill", "kill", "interrupt", "interrupt", "fail", "signal"]))}


def strategy(tier):
    return _case()


# ---------------------------------------------------------------- scenario runner

_orch = []


def _script():
    if not _orch:
        _orch.append(tree.load_orchestrator())
    return _orch[0]


def run_scenario(cfg, crashes, style="kill"):
    """Run the configuration with interruptions of the given style at the given global tick indices; returns a result dict."""
    import sys

    _script()  # (fails early with a harness error if the script cannot be loaded)
    harness_cwd = os.getcwd()
    root = tmp.fresh("c19")
    os.makedirs(os.path.join(root, "input"))
    run = osim.Run(root, cfg, crashes, style=style)
    with open(run.input_screen, "w") as f:
        # (prospective runs may start from a screen on which some - or all - plates are observed already: nothing, or less than a
        # batch, is then left to select)
        json.dump({"plates": {str(i): ("o" if cfg["mode"] == "prospective" and i < cfg.get("observed", 0) else "u") for i in range(cfg["plates"])}, "lineage": "input"}, f, sort_keys=True)
    pipeline, os_proxy, sh_proxy = osim.Pipeline(run), osim.OsProxy(run), osim.ShProxy(run)

    def new_process():
        # every (re)run is a new process: the script is loaded afresh, so no module-level state survives an interruption
        orch = tree.load_orchestrator()
        for n in ("subprocess", "os", "shutil"):
            attach(orch, n)
        orch.subprocess, orch.os, orch.shutil = pipeline, os_proxy, sh_proxy
        return orch

    extra = ["--n_chains", str(cfg["n_chains"]), "--n_chunks", str(cfg["n_chunks"])] + list(cfg.get("user_args", []))
    problem = None
    invocations_done = 0
    target_inv = cfg.get("invocations", 1)
    attempts = 0
    reruns_after_advice = 0
    try:
        while True:
            attempts += 1
            if attempts > 12 + 3 * len(crashes):
                problem = ("does_not_terminate", "no end after %d reruns" % attempts)
                break
            if cfg["mode"] == "prospective" and cfg.get("_ref_keys") is not None and set(map(tuple, cfg["_ref_keys"])) <= set(run.completed):
                break  # everything the uninterrupted invocations did is done: the operator does not start another batch
            run.dead = False  # a new process
            run.interrupted = False
            orch = new_process()
            if cfg.get("relative_outdir"):
                os.chdir(root)  # the operator starts the script in the project directory and names the output directory relative to it
            step = attach(orch, "run_next_retrospective_step" if cfg["mode"] == "retrospective" else "run_next_prospective_step")
            try:
                entry = getattr(orch, "main", None)
                if callable(entry):
                    # the script's own entry point (its main loop and whatever handlers it installs around it)
                    argv = sys.argv
                    sys.argv = ["batchie.py", "--mode", cfg["mode"], "--screen", run.input_screen, "--outdir", "out" if cfg.get("relative_outdir") else run.outdir, "--batch-size", str(cfg["batch"])] + list(extra)
                    try:
                        entry()
                    except SystemExit as e:
                        if e.code not in (0, None):
                            if run.interrupted:
                                continue  # the interrupted process ended with an error status; the operator reruns
                            problem = ("cannot_continue", "script exits with status %r, naming no directory to remove" % (e.code,))
                            break
                    finally:
                        sys.argv = argv
                        os.chdir(harness_cwd)  # (a script that changes its working directory changed the harness's: every process starts afresh)
                else:
                    guard = 0
                    while True:  # the script's main() loop
                        guard += 1
                        if guard > 60:
                            raise RuntimeError("harness: main loop did not stop after 60 steps")
                        again = step(output_dir=run.outdir, input_screen=run.input_screen, extra_args=list(extra), batch_size=cfg["batch"])
                        if not again:
                            break
                if run.interrupted:
                    # the script swallowed the interruption and carried on to a normal end: the process ended all the same
                    run.events.append("interruption swallowed by the script")
                invocations_done += 1  # the script returned normally
                if cfg["mode"] == "retrospective":
                    break
                ref_keys = cfg.get("_ref_keys")
                if ref_keys is None:
                    if invocations_done >= target_inv:
                        break
                elif set(map(tuple, ref_keys)) <= set(run.completed):
                    break
            except osim.Crash:
                continue  # the process died here; the operator simply reruns the script
            except KeyboardInterrupt:
                if not run.interrupted:
                    raise
                continue  # Ctrl-C: the script's handlers have run, the process ended; the operator reruns
            except osim.PipelineFailure as e:
                if not run.interrupted:
                    problem = ("cannot_continue", "script stops with %r, naming no directory to remove" % (e,))
                    break
                continue  # the launched pipeline failed (injected), the script ended with that error; the operator reruns
            except RuntimeError as e:
                if str(e).startswith("harness:"):
                    problem = ("does_not_terminate", str(e))
                    break
                m = re.search(r"Consider deleting this directory to continue simulation: (.*)$", str(e))
                if m and os.path.isdir(m.group(1)) and reruns_after_advice < 6:
                    reruns_after_advice += 1
                    d = m.group(1)
                    k = run.key_of(d)
                    if k is not None and k in run.completed:
                        run.violations.append(("completed_step_deleted", "the script asks the operator to delete the completed step iter_%d/plate_%d" % k))
                    shutil.rmtree(d)
                    run.events.append("operator removed " + os.path.relpath(d, run.outdir))
                    continue
                problem = ("cannot_continue", "script stops with %r" % (e,))
                break
            except Exception as e:  # noqa
                problem = ("cannot_continue", "script stops with %r, naming no directory to remove" % (e,))
                break
        tree_ = osim.snapshot_tree(run.outdir) if os.path.isdir(run.outdir) else {}
    finally:
        os.chdir(harness_cwd)
        tmp.cleanup(root)
    return {
        "problem": problem,
        "ticks": run.ticks,
        "log": run.log,
        "completed": list(run.completed),
        "violations": list(run.violations),
        "tree": tree_,
        "crash_sites": list(run.crash_sites),
        "events": list(run.events),
    }


def absolute_checks(res, cfg, desc):
    """Claims of the statement that do not refer to the uninterrupted run: no step index is skipped, and (retrospective)
    every step starts from the output screen of its immediate predecessor."""
    done = [tuple(k) for k in res["completed"]]
    for a, b in zip(done, done[1:]):
        ok = (b == (a[0], a[1] + 1)) or (b == (a[0] + 1, 0))
        require(ok, "step_index_skipped", lambda: "step %r completed right after %r (%s)" % (b, a, desc))
    if done:
        require(done[0] == (0, 0), "step_index_skipped", lambda: "first completed step is %r (%s)" % (done[0], desc))
    if cfg["mode"] == "retrospective":
        recs = {tuple(r["key"]): r for r in res["log"] if r["completed"] and r["key"] is not None}
        for a, b in zip(done, done[1:]):
            start = recs[b].get("training_screen") or recs[b].get("screen")
            require(start == recs[a].get("output_screen"), "not_started_from_predecessor_output", lambda: "step %r did not start from the screen step %r produced (%s)" % (b, a, desc))


_FIELDS = ("mode", "outdir", "name", "n_chains", "n_chunks", "screen", "training_screen", "test_screen", "thetas", "dist", "excludes", "selected")


def check_case(case):
    cfg = dict(case["cfg"])
    n, ref = n_points(case["cfg"])
    if ref["problem"] or ref["violations"]:
        raise Violation("reference." + (ref["problem"] or ref["violations"][0])[0], "the never-interrupted run itself fails: %r" % ((ref["problem"] or ref["violations"][0]),))
    crashes = list(case["crashes"])
    if case.get("frac") and n:
        # drawn crash points are folded into the range of real injection points
        crashes = sorted({c % (n + 40) for c in crashes})
    ref_by_key = {tuple(r["key"]): r for r in ref["log"] if r["completed"]}
    ref_order = [tuple(k) for k in ref["completed"]]
    if not crashes:
        require(len(ref_order) >= 1, "reference.empty", "reference run executed nothing")
        absolute_checks(ref, cfg, "uninterrupted run of config %s" % json.dumps(case["cfg"], sort_keys=True))
        return {"nontrivial": False, "labels": ["reference", cfg["mode"]], "key": ["ref", case["cfg"]]}
    cfg["_ref_keys"] = ref_order
    style = case.get("style", "kill")
    res = run_scenario(cfg, crashes, style=style)
    sites = res["crash_sites"]
    desc = "config %s, %s at %s" % (json.dumps(case["cfg"], sort_keys=True), {"kill": "process killed", "interrupt": "KeyboardInterrupt", "fail": "pipeline command failed / KeyboardInterrupt", "signal": "pipeline command killed by a signal / KeyboardInterrupt"}[style], ["%d:%s" % s for s in sites] or crashes)
    if res["violations"]:
        v = res["violations"][0]
        raise Violation(v[0], "%s (%s)" % (v[1], desc))
    done = [tuple(k) for k in res["completed"]]
    for rec in res["log"]:
        if not rec["completed"]:
            continue
        k = tuple(rec["key"]) if rec["key"] is not None else None
        require(k in ref_by_key, "unknown_step", lambda: "step %r was executed but does not exist in the uninterrupted run (%s)" % (k, desc))
        r = ref_by_key[k]
        for f in _FIELDS:
            require(rec.get(f) == r.get(f), "step_inputs_differ." + f, lambda: "step iter_%d/plate_%d: %s is %r, uninterrupted run has %r (%s)" % (k[0], k[1], f, rec.get(f), r.get(f), desc))
    if res["problem"]:
        raise Violation(res["problem"][0], "%s (%s; events %r)" % (res["problem"][1], desc, res["events"]))
    absolute_checks(res, cfg, desc)
    require(done == ref_order[: len(done)], "order_or_gap", lambda: "steps completed in order %r, reference order %r (%s)" % (done, ref_order, desc))
    require(done == ref_order, "incomplete", lambda: "interrupted history completed %r, uninterrupted run completes %r (%s)" % (done, ref_order, desc))
    require(res["tree"] == ref["tree"], "final_tree", lambda: "final directory tree differs from the uninterrupted run: only-here %r, missing %r (%s)" % (sorted(set(res["tree"]) - set(ref["tree"]))[:4], sorted(set(ref["tree"]) - set(res["tree"]))[:4], desc))
    inside = any(("publish" in w or "work:" in w) for _, w in sites)
    new_iter = any(re.search(r"mkdir:(before|after):out/iter_\d+$", w) for _, w in sites)
    labels = [cfg["mode"], "crashes=%d" % len(sites), "style=" + style]
    if inside:
        labels.append("inside-step")
    if new_iter:
        labels.append("new-iteration-dir")
    if not sites:
        labels.append("crash-point-beyond-run")
    return {"nontrivial": bool(sites) and (inside or new_iter or len(sites) >= 2), "labels": labels, "key": [case["cfg"], [s[0] for s in sites], style]}
